#!/usr/bin/env python3
"""Writes MANIFEST.json from the table below (kept in one place so it stays valid)."""
import json, subprocess
hooks = subprocess.run(["git", "-C", "/repo", "log", "--format=%H", "--grep", "verification hooks", "--fixed-strings"], stdout=subprocess.PIPE, text=True).stdout.split()
CLAIMS = json.load(open("/verif/claims.json"))
checks = []
for pid, c in sorted(CLAIMS["claimed"].items()):
    checks.append({
        "property_id": pid,
        "quick_cmd": f"./check {pid} --tier quick",
        "thorough_cmd": f"./check {pid} --tier thorough",
        "evidence_file": f"evidence/{pid}.json",
        "replay_cmd_template": f"./check {pid} --replay {{path}}",
        "engine": "vharness",
        "level_claimed": {"category": c.get("level", "exploration"), "text": c["text"], "design_ref": c["design_ref"]},
        "level_note": c["note"],
        "technique": c["technique"],
    })
m = {
    "version": 1,
    "setup_cmd": "./check --setup",
    "hooks": {
        "guard": "cormacrelf_incremental_rs_verif",
        "enable": "rustc --cfg cormacrelf_incremental_rs_verif, passed to every crate through harness/.cargo/config.toml [build] rustflags",
        "baseline_off_cmd": "cd /repo && cargo test --workspace --no-fail-fast --offline",
        "source_commits": hooks,
        "add_only": True,
    },
    "engines": [{
        "name": "vharness",
        "path": "harness",
        "serves_properties": sorted(CLAIMS["claimed"].keys()),
        "kind_free_text": "Rust harness linked against /repo: random and exhaustive workload generators, a pure reference model, event-log monitors, the engine audit hook; driven and sharded by ./check (python3); sanitizer legs: Miri, ASan/LSan, valgrind memcheck",
    }],
    "checks": checks,
    "not_applicable": [{"property_id": k, "reason": v} for k, v in sorted(CLAIMS.get("not_applicable", {}).items())],
    "notes": "Runtime monitoring and sanitizers only. Every check rebuilds the harness against /repo's working tree (cargo path dependency). Exit 0 = held on what was observed, 1 = VIOLATION line(s), 2 = harness failure or inconclusive run (never on the unchanged tree). Known findings: known_findings.json.",
}
json.dump(m, open("/verif/MANIFEST.json", "w"), indent=1)
print("wrote MANIFEST.json with", len(checks), "checks")
