//! Small deterministic PRNG (SplitMix64 seeding a xoshiro256**), no external crates.
#[derive(Clone, Debug)]
pub struct Rng {
    s: [u64; 4],
}

fn splitmix(x: &mut u64) -> u64 {
    *x = x.wrapping_add(0x9E3779B97F4A7C15);
    let mut z = *x;
    z = (z ^ (z >> 30)).wrapping_mul(0xBF58476D1CE4E5B9);
    z = (z ^ (z >> 27)).wrapping_mul(0x94D049BB133111EB);
    z ^ (z >> 31)
}

impl Rng {
    pub fn new(seed: u64) -> Self {
        let mut x = seed;
        let s = [splitmix(&mut x), splitmix(&mut x), splitmix(&mut x), splitmix(&mut x)];
        Rng { s }
    }
    pub fn next_u64(&mut self) -> u64 {
        let result = self.s[1].wrapping_mul(5).rotate_left(7).wrapping_mul(9);
        let t = self.s[1] << 17;
        self.s[2] ^= self.s[0];
        self.s[3] ^= self.s[1];
        self.s[1] ^= self.s[2];
        self.s[0] ^= self.s[3];
        self.s[2] ^= t;
        self.s[3] = self.s[3].rotate_left(45);
        result
    }
    /// uniform in 0..n (n > 0)
    pub fn below(&mut self, n: usize) -> usize {
        debug_assert!(n > 0);
        (self.next_u64() % n as u64) as usize
    }
    pub fn range(&mut self, lo: i64, hi_incl: i64) -> i64 {
        lo + self.below((hi_incl - lo + 1) as usize) as i64
    }
    pub fn chance(&mut self, num: usize, den: usize) -> bool {
        self.below(den) < num
    }
    pub fn pick<'a, T>(&mut self, xs: &'a [T]) -> &'a T {
        &xs[self.below(xs.len())]
    }
    pub fn shuffle<T>(&mut self, xs: &mut [T]) {
        for i in (1..xs.len()).rev() {
            let j = self.below(i + 1);
            xs.swap(i, j);
        }
    }
    /// weighted choice: returns index
    pub fn weighted(&mut self, weights: &[usize]) -> usize {
        let total: usize = weights.iter().sum();
        let mut r = self.below(total.max(1));
        for (i, w) in weights.iter().enumerate() {
            if r < *w {
                return i;
            }
            r -= *w;
        }
        weights.len() - 1
    }
}

pub fn mix(a: u64, b: u64) -> u64 {
    let mut x = a ^ b.wrapping_mul(0x9E3779B97F4A7C15);
    splitmix(&mut x)
}
