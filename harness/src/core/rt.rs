//! Runtime shared between the harness and the instrumented closures: event log, registry of
//! nodes created inside bind closures, drop-counting tokens, and the handle tables that
//! closures reach through a Weak reference only.

use super::spec::*;
use incremental::{Incr, IncrState, Observer, ObserverError, SubscriptionToken, Var, WeakIncr, WeakState};
use std::cell::{Cell, RefCell};
use std::rc::{Rc, Weak};

#[derive(Clone, Copy, Debug, PartialEq, Eq, Hash)]
pub enum ObsErr {
    CurrentlyStabilising,
    NeverStabilised,
    Disallowed,
    ObservingInvalid,
    Mismatch,
    Other,
}

impl From<ObserverError> for ObsErr {
    fn from(e: ObserverError) -> Self {
        match e {
            ObserverError::CurrentlyStabilising => ObsErr::CurrentlyStabilising,
            ObserverError::NeverStabilised => ObsErr::NeverStabilised,
            ObserverError::Disallowed => ObsErr::Disallowed,
            ObserverError::ObservingInvalid => ObsErr::ObservingInvalid,
            ObserverError::Mismatch => ObsErr::Mismatch,
            _ => ObsErr::Other,
        }
    }
}

pub type Read = Result<Val, ObsErr>;

#[derive(Clone, Copy, Debug, PartialEq, Eq, Hash)]
pub enum Upd {
    Init(Val),
    Changed(Val),
    Invalidated,
}

/// who performed an in-stabilise operation
#[derive(Clone, Copy, Debug, PartialEq, Eq)]
pub enum Who {
    Node(NodeKey),
    Handler(usize),
}

#[derive(Clone, Debug, PartialEq)]
pub enum Event {
    Invoke { key: NodeKey, args: Vec<Val>, result: Val },
    FoldStep { key: NodeKey, acc: i64, x: i64, result: i64 },
    BindRun { bind: NodeKey, gen: u32, lhs: i64 },
    Cutoff { key: NodeKey, old: Val, new: Val, decision: bool },
    Handler { sub: usize, update: Upd },
    ClosureRead { who: Who, obs: usize, result: Read },
    ClosureReadVar { who: Who, var: VarId, got: Val },
    ClosureWrite { who: Who, var: VarId, op: WriteOp, returned: Option<Val>, dropped: bool },
    SubCreated { sub: usize, obs: usize, by: usize, ok: bool },
    Unsub { sub: usize, by: usize, result: Result<(), ObsErr> },
    DisallowBy { obs: usize, by: usize },
    VarDropped { who: Who, var: VarId },
    NodeUpdate { node: NodeId, kind: u8, value: Option<Val> },
    /// the projection function of a map_ref node ran inside a stabilise
    Projection { key: NodeKey },
}

/// counts live instances of everything the harness places inside the graph
#[derive(Debug)]
pub struct Token(Rc<Cell<isize>>);
impl Token {
    pub fn new(counter: &Rc<Cell<isize>>) -> Token {
        counter.set(counter.get() + 1);
        Token(counter.clone())
    }
}
impl Clone for Token {
    fn clone(&self) -> Self {
        Token::new(&self.0)
    }
}
impl Drop for Token {
    fn drop(&mut self) {
        self.0.set(self.0.get() - 1);
    }
}

#[derive(Clone, Debug, PartialEq)]
pub struct TmCtx {
    pub lhs: Vec<i64>,
    pub shared: Vec<Option<Rc<Tm>>>,
}

pub struct DynEntry {
    pub weak: Option<WeakIncr<i64>>,
    /// (bind main node key, generation) of every enclosing bind run, outermost first
    pub scope: Vec<(NodeKey, u32)>,
    pub tm: Rc<Tm>,
    pub ctx: TmCtx,
    /// round in which it was created
    pub round: u32,
    /// built and dropped again by the closure
    pub scratch: bool,
}

#[derive(Debug)]
pub struct InjectedPanic;

pub struct Shared {
    pub events: RefCell<Vec<Event>>,
    pub registry: RefCell<Vec<DynEntry>>,
    /// index of the running stabilise (number of stabilise calls started so far)
    pub round: Cell<u32>,
    pub stabilising: Cell<bool>,
    pub in_handlers: Cell<bool>,
    /// user-function invocations so far (all kinds)
    pub steps: Cell<u64>,
    pub panic_at: Cell<Option<u64>>,
    /// kind of user function at each step of the current round (C13)
    pub step_kinds: RefCell<Vec<&'static str>>,
    pub step_limit: Cell<u64>,
    pub tokens: Rc<Cell<isize>>,
    pub next_sub: Cell<usize>,
    pub weak_state: RefCell<Option<WeakState>>,
    /// nodes leaked by bind closures through `Tm::Keep` (a bounded ring of strong handles)
    pub kept: RefCell<std::collections::VecDeque<incremental::Incr<i64>>>,
    /// set once the harness starts dropping its handles: nothing is retained any more
    pub tearing_down: Cell<bool>,
    /// findings made inside instrumented closures, collected after the stabilise
    pub closure_problems: RefCell<Vec<(&'static str, String)>>,
    /// consultations made so far of each installed boxed cutoff closure (by installation id)
    pub cutoff_calls: RefCell<Vec<u64>>,
}

impl Shared {
    pub fn new() -> Rc<Shared> {
        Rc::new(Shared {
            events: RefCell::new(Vec::new()),
            registry: RefCell::new(Vec::new()),
            round: Cell::new(0),
            stabilising: Cell::new(false),
            in_handlers: Cell::new(false),
            steps: Cell::new(0),
            panic_at: Cell::new(None),
            step_kinds: RefCell::new(Vec::new()),
            step_limit: Cell::new(u64::MAX),
            tokens: Rc::new(Cell::new(0)),
            next_sub: Cell::new(0),
            weak_state: RefCell::new(None),
            kept: RefCell::new(Default::default()),
            tearing_down: Cell::new(false),
            closure_problems: RefCell::new(Vec::new()),
            cutoff_calls: RefCell::new(Vec::new()),
        })
    }
    pub fn log(&self, e: Event) {
        self.events.borrow_mut().push(e);
    }
    /// called at the start of every user function
    pub fn tick(&self, kind: &'static str) {
        let n = self.steps.get();
        self.steps.set(n + 1);
        self.step_kinds.borrow_mut().push(kind);
        if self.panic_at.get() == Some(n) {
            self.panic_at.set(None);
            std::panic::panic_any(InjectedPanic);
        }
        if n > self.step_limit.get() {
            panic!("verif: step limit exceeded (divergence)");
        }
    }
    pub fn token(&self) -> Token {
        Token::new(&self.tokens)
    }
    pub fn reserve_dyn(&self, scope: Vec<(NodeKey, u32)>, tm: Rc<Tm>, ctx: TmCtx, scratch: bool) -> DynKey {
        let mut r = self.registry.borrow_mut();
        r.push(DynEntry { weak: None, scope, tm, ctx, round: self.round.get(), scratch });
        r.len() - 1
    }
    pub fn fill_dyn(&self, key: DynKey, incr: &Incr<i64>) {
        self.registry.borrow_mut()[key].weak = Some(incr.weak());
    }
}

pub enum VarH {
    I(Var<i64>),
    P(Var<(i64, i64)>),
}

impl VarH {
    pub fn get(&self) -> Val {
        match self {
            VarH::I(v) => Val::I(v.get()),
            VarH::P(v) => {
                let (a, b) = v.get();
                Val::P(a, b)
            }
        }
    }
    /// performs the write through the matching public API call; returns the value handed back by
    /// replace / replace_with
    pub fn write(&self, op: &WriteOp) -> Option<Val> {
        self.write_with(op, &mut || {})
    }
    /// as `write`; `inside` runs inside the closure handed to update / modify / replace_with
    /// (before the call for set / replace)
    pub fn write_with(&self, op: &WriteOp, inside: &mut dyn FnMut()) -> Option<Val> {
        if matches!(op, WriteOp::Set(_) | WriteOp::Replace(_)) {
            inside();
        }
        match self {
            VarH::I(v) => match op {
                WriteOp::Set(c) => {
                    v.set(md(*c));
                    None
                }
                WriteOp::UpdateAdd(c) => {
                    let c = *c;
                    v.update(|x| { inside(); md(x + c) });
                    None
                }
                WriteOp::ModifyMul(c) => {
                    let c = *c;
                    v.modify(|x| { inside(); *x = md(*x * c) });
                    None
                }
                WriteOp::Replace(c) => Some(Val::I(v.replace(md(*c)))),
                WriteOp::ReplaceWithAdd(c) => {
                    let c = *c;
                    Some(Val::I(v.replace_with(|x| { inside(); md(*x + c) })))
                }
            },
            VarH::P(v) => match op {
                WriteOp::Set(c) => {
                    let Val::P(a, b) = pset(*c) else { unreachable!() };
                    v.set((a, b));
                    None
                }
                WriteOp::UpdateAdd(c) => {
                    let c = *c;
                    v.update(|(a, b)| { inside(); (md(a + c), b) });
                    None
                }
                WriteOp::ModifyMul(c) => {
                    let c = *c;
                    v.modify(|p| { inside(); p.1 = md(p.1 * c) });
                    None
                }
                WriteOp::Replace(c) => {
                    let Val::P(a, b) = pset(*c) else { unreachable!() };
                    let (oa, ob) = v.replace((a, b));
                    Some(Val::P(oa, ob))
                }
                WriteOp::ReplaceWithAdd(c) => {
                    let c = *c;
                    let (oa, ob) = v.replace_with(|p| { inside(); (p.0, md(p.1 + c)) });
                    Some(Val::P(oa, ob))
                }
            },
        }
    }
}

#[derive(Clone)]
pub enum ObsH {
    I(Observer<i64>),
    P(Observer<(i64, i64)>),
}

impl ObsH {
    pub fn read(&self) -> Read {
        match self {
            ObsH::I(o) => o.try_get_value().map(Val::I).map_err(ObsErr::from),
            ObsH::P(o) => o.try_get_value().map(|(a, b)| Val::P(a, b)).map_err(ObsErr::from),
        }
    }
    /// `Observer::value()`: Some(v) if it returned, None if it panicked
    pub fn value_or_panic(&self) -> Option<Val> {
        let r = std::panic::catch_unwind(std::panic::AssertUnwindSafe(|| match self {
            ObsH::I(o) => Val::I(o.value()),
            ObsH::P(o) => {
                let (a, b) = o.value();
                Val::P(a, b)
            }
        }));
        r.ok()
    }
    pub fn unsubscribe(&self, t: SubscriptionToken) -> Result<(), ObsErr> {
        match self {
            ObsH::I(o) => o.unsubscribe(t).map_err(ObsErr::from),
            ObsH::P(o) => o.unsubscribe(t).map_err(ObsErr::from),
        }
    }
    pub fn disallow(&self) {
        match self {
            ObsH::I(o) => o.disallow_future_use(),
            ObsH::P(o) => o.disallow_future_use(),
        }
    }
}

/// Engine handles that closures may reach, but never own.
pub struct Tables {
    pub vars: Vec<Option<VarH>>,
    /// all public clones of each observer
    pub observers: Vec<Vec<ObsH>>,
    /// (observer index, token) per subscription
    pub subs: Vec<Option<(usize, SubscriptionToken)>>,
    pub state: Option<IncrState>,
}

pub type TablesRef = Rc<RefCell<Tables>>;
pub type TablesWeak = Weak<RefCell<Tables>>;

pub fn val_of_pair(p: &(i64, i64)) -> Val {
    Val::P(p.0, p.1)
}
