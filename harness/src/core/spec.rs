//! The program DSL: one description of a node, interpreted twice (real engine / reference model).

use std::rc::Rc;

pub const MODULUS: i64 = 5;

pub fn md(x: i64) -> i64 {
    x.rem_euclid(MODULUS)
}

#[derive(Clone, Copy, PartialEq, Eq, Debug, Hash)]
pub enum Val {
    I(i64),
    P(i64, i64),
}

impl Val {
    pub fn i(self) -> i64 {
        match self {
            Val::I(x) => x,
            Val::P(a, b) => md(a + 2 * b),
        }
    }
    pub fn short(self) -> String {
        match self {
            Val::I(x) => format!("{x}"),
            Val::P(a, b) => format!("({a},{b})"),
        }
    }
}

#[derive(Clone, Copy, PartialEq, Eq, Debug, Hash)]
pub enum Ty {
    I,
    P,
}

/// unary functions with plenty of collisions
#[derive(Clone, Copy, PartialEq, Eq, Debug, Hash)]
pub enum F1 {
    Lin(i64, i64),
    Half,
    Parity,
    Konst(i64),
    Ident,
}

impl F1 {
    pub fn ap(self, x: i64) -> i64 {
        match self {
            F1::Lin(a, b) => md(a * x + b),
            F1::Half => md(x / 2),
            F1::Parity => md(x % 2),
            F1::Konst(c) => md(c),
            F1::Ident => md(x),
        }
    }
}

#[derive(Clone, Copy, PartialEq, Eq, Debug, Hash)]
pub enum F2 {
    Add,
    Min,
    Max,
    MulAdd(i64),
    First,
    Second,
}

impl F2 {
    pub fn ap(self, a: i64, b: i64) -> i64 {
        match self {
            F2::Add => md(a + b),
            F2::Min => md(a.min(b)),
            F2::Max => md(a.max(b)),
            F2::MulAdd(c) => md(a * c + b),
            F2::First => md(a),
            F2::Second => md(b),
        }
    }
}

pub fn pset(c: i64) -> Val {
    Val::P(md(c), md(c * c + 1))
}

pub fn weighted(w: &[i64], xs: &[i64]) -> i64 {
    md(w.iter().zip(xs).map(|(a, b)| a * b).sum::<i64>())
}

pub type NodeId = usize;
pub type VarId = usize;
pub type DynKey = usize;

#[derive(Clone, Copy, PartialEq, Eq, Debug, Hash, PartialOrd, Ord)]
pub enum NodeKey {
    Top(NodeId),
    Dyn(DynKey),
}

impl NodeKey {
    pub fn short(self) -> String {
        match self {
            NodeKey::Top(n) => format!("n{n}"),
            NodeKey::Dyn(d) => format!("d{d}"),
        }
    }
}

/// operations a node function or handler may perform while it runs
#[derive(Clone, Debug, PartialEq)]
pub enum InOp {
    Write(VarId, WriteOp),
    /// `Write` whose closure (update / modify / replace_with) first performs the second write, on
    /// another variable
    WriteNested(VarId, WriteOp, VarId, WriteOp),
    ReadVar(VarId),
    ReadObs(usize),
    /// drops the harness's handle of the variable from inside the closure (after any writes)
    DropVar(VarId),
    /// handlers only
    UnsubscribeSelf,
    /// unsubscribes the newest other subscription of the same observer, live or already cancelled
    UnsubscribeOther,
    /// drops every public handle of the handler's own observer
    DropOwn,
    DisallowOwn,
    SubscribeOwn,
    ReadOwn,
    /// not an operation: the handler's closure owns a guard that, when the closure is dropped,
    /// unsubscribes (through the `WeakState`) the newest other subscription its observer had when
    /// this one was made
    GuardSibling,
}

#[derive(Clone, Debug, PartialEq)]
pub enum WriteOp {
    Set(i64),
    UpdateAdd(i64),
    ModifyMul(i64),
    Replace(i64),
    ReplaceWithAdd(i64),
}

impl WriteOp {
    /// new value and (for replace flavours) the returned old value.
    /// Pair variables: Set/Replace write `pset(c)`, UpdateAdd touches the first component,
    /// ModifyMul and ReplaceWithAdd the second.
    pub fn apply(&self, cur: Val) -> (Val, Option<Val>) {
        match cur {
            Val::I(x) => match self {
                WriteOp::Set(c) => (Val::I(md(*c)), None),
                WriteOp::UpdateAdd(c) => (Val::I(md(x + c)), None),
                WriteOp::ModifyMul(c) => (Val::I(md(x * c)), None),
                WriteOp::Replace(c) => (Val::I(md(*c)), Some(cur)),
                WriteOp::ReplaceWithAdd(c) => (Val::I(md(x + c)), Some(cur)),
            },
            Val::P(a, b) => match self {
                WriteOp::Set(c) => (pset(*c), None),
                WriteOp::UpdateAdd(c) => (Val::P(md(a + c), b), None),
                WriteOp::ModifyMul(c) => (Val::P(a, md(b * c)), None),
                WriteOp::Replace(c) => (pset(*c), Some(cur)),
                WriteOp::ReplaceWithAdd(c) => (Val::P(a, md(b + c)), Some(cur)),
            },
        }
    }
    pub fn is_absolute(&self) -> bool {
        matches!(self, WriteOp::Set(_) | WriteOp::Replace(_))
    }
}

#[derive(Clone, Copy, Debug, PartialEq, Eq, Hash)]
pub enum CutoffKind {
    /// engine default (PartialEq)
    Default,
    Never,
    Always,
    /// Cutoff::Fn(eq)
    FnEq,
    /// Cutoff::FnBoxed logging (old,new), equality
    LogEq,
    /// Cutoff::FnBoxed logging, lossy: equal modulo 2 (C06 workload only)
    LogMod2,
    /// Cutoff::FnBoxed logging, never cuts
    LogNever,
}

impl CutoffKind {
    /// does the cutoff only ever suppress equal values?
    pub fn transparent(self) -> bool {
        matches!(self, CutoffKind::Default | CutoffKind::Never | CutoffKind::FnEq | CutoffKind::LogEq | CutoffKind::LogNever)
    }
    /// decision for (old,new) where it is a pure function of the values
    pub fn decide(self, old: Val, new: Val) -> bool {
        match self {
            CutoffKind::Default | CutoffKind::FnEq | CutoffKind::LogEq => old == new,
            CutoffKind::Never | CutoffKind::LogNever => false,
            CutoffKind::Always => true,
            CutoffKind::LogMod2 => match (old, new) {
                (Val::I(a), Val::I(b)) => a % 2 == b % 2,
                (Val::P(a, b), Val::P(c, d)) => a % 2 == c % 2 && b % 2 == d % 2,
                _ => false,
            },
        }
    }
    pub fn logs(self) -> bool {
        matches!(self, CutoffKind::LogEq | CutoffKind::LogMod2 | CutoffKind::LogNever)
    }
}

/// Right-hand-side templates of binds: pure data, instantiated by the engine-side closure
/// and, independently, by the reference evaluator.
#[derive(Clone, Debug, PartialEq)]
pub enum Tm {
    /// an existing top-level node of type I
    Ref(NodeId),
    Const(i64),
    /// constant node holding the lhs value captured at `depth`
    LhsConst(usize),
    Map(F1, Rc<Tm>),
    /// map whose closure captures the lhs value of the bind at `depth`: f(x, lhs)
    MapCap(F2, Rc<Tm>, usize),
    Map2(F2, Rc<Tm>, Rc<Tm>),
    /// nested bind: lhs, optional node shared with the inner templates, table
    Bind(Rc<Tm>, Option<Rc<Tm>>, Vec<Rc<Tm>>),
    /// the shared node built by the enclosing bind at `depth`
    Shared(usize),
    /// builds the first and drops it again, returns the second
    Scratch(Rc<Tm>, Rc<Tm>),
    /// builds the first and leaks it through a side channel (the harness keeps a handle, so it can
    /// be adopted and observed later), returns the second
    Keep(Rc<Tm>, Rc<Tm>),
    /// `var_current_scope(lhs + c).watch()`
    ScopedVar(i64),
    /// fold over several sub-terms
    Fold(F2, i64, Vec<Rc<Tm>>),
}

#[derive(Clone, Debug, PartialEq)]
pub enum Kind {
    Var(VarId),
    Const(Val),
    Map(F1, NodeId),
    Map2(F2, NodeId, NodeId),
    /// 3..=6 inputs, weights; `syntax` = built through the `%` builder
    MapN(Vec<i64>, Vec<NodeId>, bool),
    Fold(F2, i64, Vec<NodeId>),
    Zip(NodeId, NodeId),
    MapRef(u8, NodeId),
    /// map over a pair
    MapP(F2, NodeId),
    MapWithOld(F1, NodeId, bool),
    DependOn(NodeId, NodeId),
    MapCyclic(F1, NodeId),
    Bind(NodeId, Vec<Rc<Tm>>),
    /// handle to a node created inside a bind closure
    Adopted(DynKey),
    /// map with side effects (var writes / observer reads) performed when it runs
    Writer(F1, NodeId, Vec<InOp>),
    /// map over a pair var's first component through enumerate(): f(x) but counts calls
    Enumerate(F1, NodeId),
    /// map_with_old producing the pair (x, f(x)); `truthful` as for MapWithOld
    MapWithOldPair(F1, NodeId, bool),
    /// map whose closure owns a clone of a variable handle (and reads it with get)
    MapHold(F1, NodeId, VarId),
}

impl Kind {
    pub fn inputs(&self) -> Vec<NodeId> {
        match self {
            Kind::Var(_) | Kind::Const(_) | Kind::Adopted(_) => vec![],
            Kind::Map(_, a)
            | Kind::MapRef(_, a)
            | Kind::MapP(_, a)
            | Kind::MapWithOld(_, a, _)
            | Kind::MapCyclic(_, a)
            | Kind::Writer(_, a, _)
            | Kind::Enumerate(_, a)
            | Kind::MapWithOldPair(_, a, _)
            | Kind::MapHold(_, a, _) => vec![*a],
            Kind::Map2(_, a, b) | Kind::Zip(a, b) | Kind::DependOn(a, b) => vec![*a, *b],
            Kind::MapN(_, v, _) | Kind::Fold(_, _, v) => v.clone(),
            Kind::Bind(l, _) => vec![*l],
        }
    }
    pub fn name(&self) -> &'static str {
        match self {
            Kind::Var(_) => "var",
            Kind::Const(_) => "const",
            Kind::Map(..) => "map",
            Kind::Map2(..) => "map2",
            Kind::MapN(..) => "mapN",
            Kind::Fold(..) => "fold",
            Kind::Zip(..) => "zip",
            Kind::MapRef(..) => "map_ref",
            Kind::MapP(..) => "map_pair",
            Kind::MapWithOld(..) => "map_with_old",
            Kind::DependOn(..) => "depend_on",
            Kind::MapCyclic(..) => "map_cyclic",
            Kind::Bind(..) => "bind",
            Kind::Adopted(..) => "adopted",
            Kind::Writer(..) => "writer",
            Kind::Enumerate(..) => "enumerate",
            Kind::MapWithOldPair(..) => "map_with_old_pair",
            Kind::MapHold(..) => "map_holding_var",
        }
    }
}

#[derive(Clone, Debug, PartialEq)]
pub enum Action {
    NewVar(Val),
    Create(Kind),
    Write(VarId, WriteOp),
    SetCutoff(NodeId, CutoffKind),
    Observe(NodeId),
    CloneObs(usize),
    /// drop one public handle (clone) of the observer
    DropObs(usize),
    Disallow(usize),
    Subscribe(usize, Vec<InOp>),
    Unsubscribe(usize),
    StateUnsubscribe(usize),
    Adopt(DynKey),
    DropHandle(NodeId),
    DropVar(VarId),
    Stabilise,
    StabiliseUntilStable,
    /// render the observed graph as GraphViz text (must not panic)
    Dot,
    /// node-level update handler (`Incr::on_update`)
    OnUpdate(NodeId),
    /// reconfigure the height limit at a quiescent point (always far above the heights in use)
    SetMaxHeight(usize),
}
