pub mod build;
pub mod exec;
pub mod gen;
pub mod model;
pub mod rt;
pub mod spec;

use crate::json::J;
use crate::rng::{mix, Rng};
use exec::*;
use gen::*;
use std::collections::HashSet;

pub fn profile(name: &str) -> GenCfg {
    let mut c = GenCfg::base("core");
    match name {
        "core" => {}
        "c01" => {
            c.name = "c01";
            c.writers = false;
            c.handler_scripts = false;
            c.mapref_shape = 5;
            c.w_unobserve = 6;
            c.w_observe = 8;
        }
        "c02" => {
            c.name = "c02";
            c.sibling_shape = 8;
            c.mapref_shape = 0;
            c.w_write = 12;
        }
        "c03" => {
            c.name = "c03";
            c.kept_shape = 4;
            c.sibling_shape = 6;
            c.mapref_shape = 0;
        }
        "c05" => {
            c.name = "c05";
            c.w_unobserve = 8;
            c.w_observe = 8;
            c.writers = false;
        }
        "c06" => {
            c.name = "c06";
            c.lossy_cutoffs = true;
            // with lossy cutoffs the engine's values legitimately differ from a from-scratch
            // evaluation, so the shape of the graph must not depend on values: no binds here
            c.binds = false;
            c.sibling_shape = 0;
            c.kept_shape = 0;
            c.w_cutoff = 6;
            c.writers = false;
            c.adopt = false;
            c.until_stable = false;
        }
        "c06b" => {
            // transparent cutoffs of every kind on a graph with binds (values stay comparable)
            c.name = "c06b";
            c.w_cutoff = 6;
            c.same_rhs_shape = 6;
            c.sibling_shape = 0;
            c.kept_shape = 0;
            c.mapref_shape = 2;
        }
        "c07" => {
            c.name = "c07";
            c.w_write = 14;
            c.mapref_shape = 4;
        }
        "c08" => {
            c.name = "c08";
            c.w_write = 12;
            c.sibling_shape = 1;
        }
        "c09" => {
            c.name = "c09";
            c.w_subscribe = 8;
            c.w_observe = 8;
            c.writers = false;
        }
        "small" => {
            c.name = "small";
            c.max_nodes = 14;
            c.max_actions = 30;
        }
        _ => {}
    }
    c
}

pub struct HistoryResult {
    pub actions: Vec<String>,
    pub violations: Vec<Violation>,
    pub stats: Stats,
    pub hash: u64,
}

pub fn run_history(cfg: &GenCfg, seed: u64, wcfg: &Config, keep_actions: bool) -> HistoryResult {
    let mut rng = Rng::new(seed);
    let mut w = World::new(1024, wcfg.clone());
    w.sh.step_limit.set(200_000);
    let mut g = Gen::new(cfg.clone());
    let mut actions = vec![];
    let mut hash = 0xcbf29ce484222325u64;
    while let Some(a) = g.next(&w, &mut rng) {
        let s = format!("{:?}", a);
        for b in s.bytes() {
            hash = (hash ^ b as u64).wrapping_mul(0x100000001b3);
        }
        if keep_actions {
            actions.push(s);
        }
        if !w.apply(&a) {
            break;
        }
    }
    let state_first = rng.chance(1, 4);
    let interleave = rng.chance(1, 2);
    w.teardown(&mut rng, state_first, interleave);
    let mut violations = w.violations.clone();
    let stats = w.stats.clone();
    let engine_panicked = w.poisoned;
    // whatever is left (after an engine panic the teardown stops early) goes now
    if let Err(e) = std::panic::catch_unwind(std::panic::AssertUnwindSafe(move || drop(w))) {
        if !engine_panicked {
            violations.push(Violation { prop: "C12", msg: format!("final drop panicked: {}", panic_text(&e)), action_index: usize::MAX });
        }
    }
    HistoryResult { actions, violations, stats, hash }
}

fn add_stats(a: &mut Stats, b: &Stats, orders: &mut HashSet<u64>) {
    macro_rules! acc {
        ($($f:ident),*) => { $(a.$f += b.$f;)* };
    }
    acc!(
        actions, stabilises, invocations_checked, fold_passes_checked, observer_reads_compared,
        between_reads_compared, closure_reads_checked, closure_writes_checked, audits,
        handler_events_checked, sub_rounds_judged, sub_rounds_inconclusive, bind_runs, bind_reruns,
        reobserve_after_change, height_switches, scratch_nodes, rounds_with_out_of_cone_stale,
        rounds_no_observers, deferred_write_rounds, multi_deferred_rounds, invalidations_observed,
        stale_gen_rounds, c03_superseded_with_live, c06_upper_judged, c06_lower_judged, c06_inconclusive,
        c06_suppressed_with_dependant, c06_gap_unsuppressed, cutoff_events, c07_writes_between,
        c09_multi_sub_unchanged, downstream_of_bind_invoked, teardown_nodes_checked, teardown_tokens_checked,
        vars_dropped_in_closures, value_calls_compared, one_stabilise_teardowns
    );
    for o in &b.recompute_orders {
        orders.insert(*o);
    }
}

pub fn stats_json(s: &Stats, orders: usize) -> J {
    macro_rules! fields {
        ($($f:ident),*) => { vec![$((stringify!($f), J::Int(s.$f as i64)),)* ("distinct_recompute_orders", J::Int(orders as i64))] };
    }
    J::obj(fields!(
        actions, stabilises, invocations_checked, fold_passes_checked, observer_reads_compared,
        between_reads_compared, closure_reads_checked, closure_writes_checked, audits,
        handler_events_checked, sub_rounds_judged, sub_rounds_inconclusive, bind_runs, bind_reruns,
        reobserve_after_change, height_switches, scratch_nodes, rounds_with_out_of_cone_stale,
        rounds_no_observers, deferred_write_rounds, multi_deferred_rounds, invalidations_observed,
        stale_gen_rounds, c03_superseded_with_live, c06_upper_judged, c06_lower_judged, c06_inconclusive,
        c06_suppressed_with_dependant, c06_gap_unsuppressed, cutoff_events, c07_writes_between,
        c09_multi_sub_unchanged, downstream_of_bind_invoked, teardown_nodes_checked, teardown_tokens_checked,
        vars_dropped_in_closures, value_calls_compared, one_stabilise_teardowns
    ))
}

/// which statistic makes a history non-trivial for a property
pub fn nontrivial(prop: &str, s: &Stats) -> bool {
    match prop {
        "C01" => s.reobserve_after_change > 0 || s.bind_reruns > 0,
        "C02" => s.downstream_of_bind_invoked > 0 || s.bind_reruns > 0 && s.invocations_checked > 0,
        "C03" => s.c03_superseded_with_live > 0,
        "C04" => s.bind_reruns > 0 || s.height_switches > 0 || s.scratch_nodes > 0,
        "C05" => s.rounds_with_out_of_cone_stale > 0 || s.rounds_no_observers > 0,
        "C06" => s.c06_suppressed_with_dependant > 0 && s.c06_gap_unsuppressed > 0,
        "C07" => s.c07_writes_between > 0,
        "C08" => s.multi_deferred_rounds > 0 || s.deferred_write_rounds > 0,
        "C09" => s.c09_multi_sub_unchanged > 0,
        "C11" => s.height_switches > 0 || s.audits > 10,
        "C12" => s.teardown_nodes_checked > 0 && (s.bind_runs > 0 || s.scratch_nodes > 0),
        _ => s.stabilises > 0,
    }
}

/// Runs `count` histories of a shard; writes one JSON report line to stdout.
pub fn run_shard(profile_name: &str, prop: &str, seed: u64, shard: u64, start: u64, count: u64, progress: Option<&str>) -> J {
    let cfg = profile(profile_name);
    let wcfg = if std::env::var("VH_LIGHT").is_ok() {
        // sanitizer legs: the engine is what is being watched, the value monitors stay on but the
        // per-action audit and read-back are dropped to keep interpreted runs affordable
        Config { audit: false, read_all: false, c06: false, compare_values: true }
    } else {
        Config { c06: true, ..Config::default() }
    };
    let mut total = Stats::default();
    let mut orders = HashSet::new();
    let mut violations: Vec<J> = vec![];
    let mut distinct: HashSet<u64> = HashSet::new();
    let mut nontriv: HashSet<u64> = HashSet::new();
    let mut samples: Vec<J> = vec![];
    for i in start..count {
        let hseed = mix(mix(seed, shard), i);
        if let Some(p) = progress {
            let _ = std::fs::write(p, format!("{profile_name} {i} {hseed}\n"));
        }
        let r = run_history(&cfg, hseed, &wcfg, false);
        distinct.insert(r.hash);
        if nontrivial(prop, &r.stats) {
            nontriv.insert(r.hash);
        }
        add_stats(&mut total, &r.stats, &mut orders);
        if !r.violations.is_empty() || (i == 0 && shard == 0) {
            let again = run_history(&cfg, hseed, &wcfg, true);
            let acts = J::Arr(again.actions.iter().map(|a| J::s(a.clone())).collect());
            if r.violations.is_empty() {
                samples.push(J::obj(vec![("history_seed", J::s(format!("{hseed}"))), ("actions", acts)]));
            } else if violations.len() < 20 {
                for v in &r.violations {
                    violations.push(J::obj(vec![
                        ("property", J::s(v.prop)),
                        ("message", J::s(v.msg.clone())),
                        ("action_index", J::Int(v.action_index as i64)),
                        ("profile", J::s(profile_name)),
                        ("history_seed", J::s(format!("{hseed}"))),
                        ("actions", acts.clone()),
                    ]));
                }
            }
        }
    }
    J::obj(vec![
        ("workload", J::s("core")),
        ("profile", J::s(profile_name)),
        ("shard", J::Int(shard as i64)),
        ("histories", J::Int((count - start.min(count)) as i64)),
        ("distinct", J::Int(distinct.len() as i64)),
        ("nontrivial", J::Int(nontriv.len() as i64)),
        ("stats", stats_json(&total, orders.len())),
        ("violations", J::Arr(violations)),
        ("samples", J::Arr(samples)),
    ])
}

// ------------------------------------------------------------------------------------------
// C13: fault enumeration
// ------------------------------------------------------------------------------------------

pub struct FaultRun {
    pub kind: &'static str,
    pub violations: Vec<Violation>,
    pub reached: bool,
}

/// clean run: returns (action index of the chosen stabilise, number of user-function invocations in it)
pub fn fault_plan(cfg: &GenCfg, seed: u64, pick: u64) -> Result<Option<(usize, u64, Vec<String>)>, (&'static str, String)> {
    let mut rng = Rng::new(seed);
    let wcfg = Config { audit: false, read_all: false, c06: false, compare_values: true };
    let mut w = World::new(1024, wcfg);
    w.sh.step_limit.set(200_000);
    let mut g = Gen::new(cfg.clone());
    let mut actions = vec![];
    while let Some(a) = g.next(&w, &mut rng) {
        actions.push(format!("{:?}", a));
        if !w.apply(&a) {
            break;
        }
    }
    if let Some(v) = w.violations.first() {
        // the history fails without any injected panic: reported, not skipped
        return Err((v.prop, v.msg.clone()));
    }
    let cands: Vec<(usize, u64)> = w.stabilise_steps.iter().filter(|(_, b, e)| e > b).map(|(a, b, e)| (*a, e - b)).collect();
    if cands.is_empty() {
        return Ok(None);
    }
    // mostly the last stabilise (largest graph), sometimes an earlier one
    let c = if pick % 3 == 0 { cands[(pick as usize / 3) % cands.len()] } else { *cands.last().unwrap() };
    let mut w2 = w;
    let mut r2 = Rng::new(seed ^ 0x5555);
    w2.teardown(&mut r2, false, false);
    let _ = std::panic::catch_unwind(std::panic::AssertUnwindSafe(move || drop(w2)));
    Ok(Some((c.0, c.1, actions)))
}

pub fn fault_run(cfg: &GenCfg, seed: u64, action: usize, offset: u64, teardown_seed: u64) -> FaultRun {
    let mut rng = Rng::new(seed);
    let wcfg = Config { audit: false, read_all: false, c06: false, compare_values: true };
    let mut w = World::new(1024, wcfg);
    w.sh.step_limit.set(200_000);
    w.fault = Some((action, offset));
    let mut g = Gen::new(cfg.clone());
    while let Some(a) = g.next(&w, &mut rng) {
        if !w.apply(&a) {
            break;
        }
    }
    let reached = w.poisoned && w.panic_msg.as_deref() == Some("<injected>");
    let mut kind = "?";
    if reached {
        kind = w.post_fault_checks();
    }
    let mut tr = Rng::new(teardown_seed);
    let state_first = tr.chance(1, 3);
    w.teardown(&mut tr, state_first, false);
    let mut violations = w.violations.clone();
    if let Err(e) = std::panic::catch_unwind(std::panic::AssertUnwindSafe(move || drop(w))) {
        violations.push(Violation { prop: "C13", msg: format!("dropping the remaining handles after the escaped panic panicked again: {}", panic_text(&e)), action_index: usize::MAX });
    }
    FaultRun { kind, violations, reached }
}

pub fn run_fault_shard(profile_name: &str, seed: u64, shard: u64, start: u64, count: u64, cap: u64, progress: Option<&str>) -> J {
    let cfg = profile(profile_name);
    let mut violations: Vec<J> = vec![];
    let (mut points, mut inside, mut histories, mut capped) = (0u64, 0u64, 0u64, 0u64);
    let mut kinds: std::collections::BTreeMap<&'static str, u64> = Default::default();
    let mut samples = vec![];
    for i in start..count {
        let hseed = mix(mix(seed, shard), i);
        let (action, n, actions) = match fault_plan(&cfg, hseed, i) {
            Ok(Some(p)) => p,
            Ok(None) => continue,
            Err((prop, msg)) => {
                if violations.len() < 20 {
                    violations.push(J::obj(vec![
                        ("property", J::s(prop)),
                        ("message", J::s(format!("history run without injected panic (before enumerating crash points): {msg}"))),
                        ("argv", J::Arr(vec![J::s("core"), J::s("--profile"), J::s(profile_name), J::s("--history"), J::s(hseed.to_string())])),
                    ]));
                }
                continue;
            }
        };
        histories += 1;
        let offsets: Vec<u64> = if n <= cap { (0..n).collect() } else {
            capped += 1;
            (0..cap).map(|j| j * n / cap).collect()
        };
        for off in offsets {
            if let Some(p) = progress {
                let _ = std::fs::write(p, format!("{profile_name} {i} {hseed} {action} {off}\n"));
            }
            let r = fault_run(&cfg, hseed, action, off, mix(hseed, off));
            if !r.reached {
                continue;
            }
            points += 1;
            *kinds.entry(r.kind).or_default() += 1;
            if off > 0 && off + 1 < n && r.kind != "handler" {
                inside += 1;
            }
            if samples.is_empty() && off > 0 && off + 1 < n {
                samples.push(J::obj(vec![
                    ("history_seed", J::s(hseed.to_string())),
                    ("stabilise_at_action", J::Int(action as i64)),
                    ("user_function_invocations_in_that_stabilise", J::Int(n as i64)),
                    ("panic_injected_at_invocation", J::Int(off as i64)),
                    ("kind", J::s(r.kind)),
                    ("actions", J::Arr(actions.iter().map(|a| J::s(a.clone())).collect())),
                ]));
            }
            for v in &r.violations {
                if violations.len() < 20 {
                    violations.push(J::obj(vec![
                        ("property", J::s(v.prop)),
                        ("message", J::s(format!("panic injected at invocation {off} ({}) of the stabilise at action {action}: {}", r.kind, v.msg))),
                        ("argv", J::Arr(vec![J::s("fault-one"), J::s(profile_name), J::s(hseed.to_string()), J::s(action.to_string()), J::s(off.to_string())])),
                    ]));
                }
            }
        }
    }
    let mut stats = vec![
        ("histories_with_a_crashable_stabilise", J::Int(histories as i64)),
        ("crash_points_strictly_inside_propagation", J::Int(inside as i64)),
        ("histories_sampled_above_cap", J::Int(capped as i64)),
        ("cap_per_stabilise", J::Int(cap as i64)),
    ];
    let kind_names: Vec<(String, u64)> = kinds.iter().map(|(k, v)| (format!("crash_in_{k}"), *v)).collect();
    let mut obj: Vec<(String, J)> = stats.drain(..).map(|(k, v)| (k.to_string(), v)).collect();
    for (k, v) in kind_names {
        obj.push((k, J::Int(v as i64)));
    }
    J::obj(vec![
        ("workload", J::s("faults")),
        ("evaluations", J::Int(points as i64)),
        ("nontrivial", J::Int(inside as i64)),
        ("stats", J::Obj(obj)),
        ("violations", J::Arr(violations)),
        ("samples", J::Arr(samples)),
    ])
}
