//! Engine-side interpreter of the DSL: builds real nodes with instrumented closures.

use super::rt::*;
use super::spec::*;
use incremental::{Cutoff, Incr, IncrState, SubscriptionToken, Update, WeakState};
use std::cell::Cell;
use std::collections::HashMap;
use std::rc::Rc;

#[derive(Clone)]
pub enum Handle {
    I(Incr<i64>),
    P(Incr<(i64, i64)>),
}

impl Handle {
    pub fn i(&self) -> &Incr<i64> {
        match self {
            Handle::I(x) => x,
            Handle::P(_) => panic!("verif: expected an integer node"),
        }
    }
    pub fn p(&self) -> &Incr<(i64, i64)> {
        match self {
            Handle::P(x) => x,
            Handle::I(_) => panic!("verif: expected a pair node"),
        }
    }
    pub fn ty(&self) -> Ty {
        match self {
            Handle::I(_) => Ty::I,
            Handle::P(_) => Ty::P,
        }
    }
    pub fn observe(&self) -> ObsH {
        match self {
            Handle::I(x) => ObsH::I(x.observe()),
            Handle::P(x) => ObsH::P(x.observe()),
        }
    }
    pub fn strong_probe(&self) -> Probe {
        match self {
            Handle::I(x) => Probe::I(x.weak()),
            Handle::P(x) => Probe::P(x.weak()),
        }
    }
}

/// weak handle used only to ask "is the node still allocated"
pub enum Probe {
    I(incremental::WeakIncr<i64>),
    P(incremental::WeakIncr<(i64, i64)>),
}
impl Probe {
    pub fn alive(&self) -> bool {
        match self {
            Probe::I(w) => w.strong_count() > 0,
            Probe::P(w) => w.strong_count() > 0,
        }
    }
}

pub trait ToVal: incremental::Value {
    fn to_val(&self) -> Val;
}
impl ToVal for i64 {
    fn to_val(&self) -> Val {
        Val::I(*self)
    }
}
impl ToVal for (i64, i64) {
    fn to_val(&self) -> Val {
        Val::P(self.0, self.1)
    }
}

pub fn run_script(who: Who, script: &[InOp], sh: &Rc<Shared>, tables: &TablesWeak) {
    for op in script {
        let Some(t) = tables.upgrade() else { return };
        match op {
            InOp::Write(var, wop) => {
                let t = t.borrow();
                if let Some(Some(v)) = t.vars.get(*var) {
                    let returned = v.write(wop);
                    sh.log(Event::ClosureWrite { who, var: *var, op: wop.clone(), returned, dropped: false });
                }
            }
            InOp::WriteNested(var, wop, ivar, iop) => {
                let t = t.borrow();
                if let (Some(Some(v)), Some(Some(iv))) = (t.vars.get(*var), t.vars.get(*ivar)) {
                    let mut inner: Option<Option<Val>> = None;
                    let returned = v.write_with(wop, &mut || inner = Some(iv.write(iop)));
                    if let Some(r) = inner {
                        sh.log(Event::ClosureWrite { who, var: *ivar, op: iop.clone(), returned: r, dropped: false });
                    }
                    sh.log(Event::ClosureWrite { who, var: *var, op: wop.clone(), returned, dropped: false });
                }
            }
            InOp::ReadVar(var) => {
                let t = t.borrow();
                if let Some(Some(v)) = t.vars.get(*var) {
                    sh.log(Event::ClosureReadVar { who, var: *var, got: v.get() });
                }
            }
            InOp::ReadObs(o) => {
                let t = t.borrow();
                if let Some(obs) = t.observers.get(*o).and_then(|v| v.first()) {
                    sh.log(Event::ClosureRead { who, obs: *o, result: obs.read() });
                }
            }
            InOp::DropVar(var) => {
                let v = t.borrow_mut().vars.get_mut(*var).and_then(|v| v.take());
                if v.is_some() {
                    drop(v);
                    sh.log(Event::VarDropped { who, var: *var });
                }
            }
            InOp::GuardSibling => {}
            InOp::ReadOwn | InOp::UnsubscribeSelf | InOp::UnsubscribeOther | InOp::DisallowOwn | InOp::SubscribeOwn | InOp::DropOwn => {
                let Who::Handler(sub) = who else { continue };
                let info = {
                    let t = t.borrow();
                    t.subs.get(sub).cloned().flatten().and_then(|(obs, tok)| {
                        t.observers.get(obs).and_then(|v| v.first().cloned()).map(|h| (obs, tok, h))
                    })
                };
                let Some((obs, tok, h)) = info else { continue };
                match op {
                    InOp::ReadOwn => sh.log(Event::ClosureRead { who, obs, result: h.read() }),
                    InOp::UnsubscribeSelf => {
                        let result = h.unsubscribe(tok);
                        sh.log(Event::Unsub { sub, by: sub, result });
                    }
                    InOp::UnsubscribeOther => {
                        let other = {
                            let t = t.borrow();
                            (0..t.subs.len()).rev().find_map(|j| match t.subs[j] {
                                Some((o, tk)) if j != sub && o == obs => Some((j, tk)),
                                _ => None,
                            })
                        };
                        if let Some((j, tk)) = other {
                            let result = h.unsubscribe(tk);
                            sh.log(Event::Unsub { sub: j, by: sub, result });
                        }
                    }
                    InOp::DisallowOwn => {
                        h.disallow();
                        sh.log(Event::DisallowBy { obs, by: sub });
                    }
                    InOp::DropOwn => {
                        let handles = std::mem::take(&mut t.borrow_mut().observers[obs]);
                        drop(handles);
                        drop(h);
                        sh.log(Event::DisallowBy { obs, by: sub });
                        continue;
                    }
                    InOp::SubscribeOwn => {
                        let new_sub = sh.next_sub.get();
                        sh.next_sub.set(new_sub + 1);
                        let r = subscribe(&h, sh, tables, new_sub, vec![InOp::ReadOwn]);
                        let ok = r.is_ok();
                        {
                            let mut tm = t.borrow_mut();
                            while tm.subs.len() <= new_sub {
                                tm.subs.push(None);
                            }
                            if let Ok(tok) = r {
                                tm.subs[new_sub] = Some((obs, tok));
                            }
                        }
                        sh.log(Event::SubCreated { sub: new_sub, obs, by: sub, ok });
                    }
                    _ => {}
                }
            }
        }
    }
}

/// what a handler closure may own: cancels a sibling subscription when the closure is dropped
pub struct SiblingGuard {
    pub state: incremental::WeakState,
    pub token: SubscriptionToken,
    pub sh: Rc<Shared>,
    pub target: usize,
    pub owner: usize,
}
impl Drop for SiblingGuard {
    fn drop(&mut self) {
        self.state.unsubscribe(self.token);
        // inside a stabilise the monitors learn the moment from the log; between stabilises the
        // model follows the cascade itself
        if self.sh.stabilising.get() && !self.sh.tearing_down.get() {
            self.sh.log(Event::Unsub { sub: self.target, by: self.owner, result: Ok(()) });
        }
    }
}

fn make_handler<T: ToVal>(
    sh: &Rc<Shared>,
    tables: &TablesWeak,
    sub: usize,
    script: Vec<InOp>,
    guard: Option<SiblingGuard>,
) -> impl FnMut(Update<&T>) + 'static {
    let sh = sh.clone();
    let tables = tables.clone();
    let tok = sh.token();
    move |u: Update<&T>| {
        let _ = (&tok, &guard);
        sh.tick("handler");
        let update = match u {
            Update::Initialised(v) => Upd::Init(v.to_val()),
            Update::Changed(v) => Upd::Changed(v.to_val()),
            Update::Invalidated => Upd::Invalidated,
        };
        sh.log(Event::Handler { sub, update });
        // (stays set if the script panics: the post-fault checks ask where the panic came from)
        sh.in_handlers.set(true);
        run_script(Who::Handler(sub), &script, &sh, &tables);
        sh.in_handlers.set(false);
    }
}

pub fn subscribe(
    h: &ObsH,
    sh: &Rc<Shared>,
    tables: &TablesWeak,
    sub: usize,
    script: Vec<InOp>,
) -> Result<SubscriptionToken, ObsErr> {
    subscribe_guarded(h, sh, tables, sub, script, None)
}

pub fn subscribe_guarded(
    h: &ObsH,
    sh: &Rc<Shared>,
    tables: &TablesWeak,
    sub: usize,
    script: Vec<InOp>,
    guard: Option<SiblingGuard>,
) -> Result<SubscriptionToken, ObsErr> {
    match h {
        ObsH::I(o) => o.try_subscribe(make_handler::<i64>(sh, tables, sub, script, guard)).map_err(ObsErr::from),
        ObsH::P(o) => o.try_subscribe(make_handler::<(i64, i64)>(sh, tables, sub, script, guard)).map_err(ObsErr::from),
    }
}

pub fn on_update(h: &Handle, node: NodeId, sh: &Rc<Shared>) {
    /// `nest`: on its second call the handler registers one more handler on its own node
    fn mk<T: ToVal>(node: NodeId, sh: &Rc<Shared>, nest: Option<incremental::WeakIncr<T>>) -> impl FnMut(incremental::NodeUpdate<&T>) + 'static {
        let sh = sh.clone();
        let tok = sh.token();
        let mut calls = 0u32;
        move |u: incremental::NodeUpdate<&T>| {
            let _ = &tok;
            sh.tick("handler");
            let (kind, value) = match u {
                incremental::NodeUpdate::Necessary(v) => (0, Some(v.to_val())),
                incremental::NodeUpdate::Changed(v) => (1, Some(v.to_val())),
                incremental::NodeUpdate::Invalidated => (2, None),
                incremental::NodeUpdate::Unnecessary => (3, None),
            };
            sh.log(Event::NodeUpdate { node, kind, value });
            calls += 1;
            if calls == 2 {
                if let Some(me) = nest.as_ref().and_then(|w| w.upgrade()) {
                    me.on_update(mk::<T>(node, &sh, None));
                }
            }
        }
    }
    match h {
        Handle::I(x) => x.on_update(mk::<i64>(node, sh, Some(x.weak()))),
        Handle::P(x) => x.on_update(mk::<(i64, i64)>(node, sh, Some(x.weak()))),
    }
}

pub fn set_cutoff(h: &Handle, kind: CutoffKind, key: NodeKey, sh: &Rc<Shared>) {
    fn mk<T: ToVal>(kind: CutoffKind, key: NodeKey, sh: &Rc<Shared>) -> Cutoff<T> {
        match kind {
            CutoffKind::Default => Cutoff::PartialEq,
            CutoffKind::Never => Cutoff::Never,
            CutoffKind::Always => Cutoff::Always,
            CutoffKind::FnEq => Cutoff::Fn(|a, b| a == b),
            CutoffKind::LogEq | CutoffKind::LogMod2 | CutoffKind::LogNever => {
                let sh = sh.clone();
                let tok = sh.token();
                // state captured by value: a boxed cutoff may mutate its captures, and what it
                // mutates must still be there at the next consultation
                let install = {
                    let mut c = sh.cutoff_calls.borrow_mut();
                    c.push(0);
                    c.len() - 1
                };
                let mut own_count = 0u64;
                Cutoff::FnBoxed(Box::new(move |a: &T, b: &T| {
                    let _ = &tok;
                    own_count += 1;
                    let made = {
                        let mut c = sh.cutoff_calls.borrow_mut();
                        c[install] += 1;
                        c[install]
                    };
                    if own_count != made {
                        sh.closure_problems.borrow_mut().push((
                            "C06",
                            format!("the boxed cutoff closure of {key:?} has been consulted {made} times, but the counter it captured by value says {own_count}: its state does not persist between consultations"),
                        ));
                    }
                    sh.tick("cutoff");
                    let (old, new) = (a.to_val(), b.to_val());
                    let decision = kind.decide(old, new);
                    sh.log(Event::Cutoff { key, old, new, decision });
                    decision
                }))
            }
        }
    }
    match h {
        Handle::I(x) => x.set_cutoff(mk::<i64>(kind, key, sh)),
        Handle::P(x) => x.set_cutoff(mk::<(i64, i64)>(kind, key, sh)),
    }
}

pub struct BindEnv {
    pub sh: Rc<Shared>,
    pub refs: HashMap<NodeId, Incr<i64>>,
    pub state: WeakState,
    pub tok: Token,
}

#[derive(Clone)]
pub struct BuildCtx {
    pub lhs: Vec<i64>,
    pub shared_nodes: Vec<Option<Incr<i64>>>,
    pub shared_tms: Vec<Option<Rc<Tm>>>,
    pub scope: Vec<(NodeKey, u32)>,
    pub scratch: bool,
}

impl BuildCtx {
    fn tmctx(&self) -> TmCtx {
        TmCtx { lhs: self.lhs.clone(), shared: self.shared_tms.clone() }
    }
}

pub fn collect_refs(tm: &Tm, out: &mut Vec<NodeId>) {
    match tm {
        Tm::Ref(n) => out.push(*n),
        Tm::Const(_) | Tm::LhsConst(_) | Tm::Shared(_) | Tm::ScopedVar(_) => {}
        Tm::Map(_, a) | Tm::MapCap(_, a, _) => collect_refs(a, out),
        Tm::Map2(_, a, b) | Tm::Scratch(a, b) | Tm::Keep(a, b) => {
            collect_refs(a, out);
            collect_refs(b, out);
        }
        Tm::Bind(l, s, t) => {
            collect_refs(l, out);
            if let Some(s) = s {
                collect_refs(s, out);
            }
            for x in t {
                collect_refs(x, out);
            }
        }
        Tm::Fold(_, _, ts) => {
            for x in ts {
                collect_refs(x, out);
            }
        }
    }
}

pub fn table_index(lhs: i64, len: usize) -> usize {
    (lhs.rem_euclid(len as i64)) as usize
}

pub fn build_tm(tm: &Rc<Tm>, ctx: &BuildCtx, env: &Rc<BindEnv>) -> Incr<i64> {
    let sh = &env.sh;
    let reserve = |ctx: &BuildCtx| sh.reserve_dyn(ctx.scope.clone(), tm.clone(), ctx.tmctx(), ctx.scratch);
    match &**tm {
        Tm::Ref(n) => env.refs[n].clone(),
        Tm::Shared(d) => ctx.shared_nodes[*d].clone().expect("verif: template refers to a missing shared node"),
        Tm::Const(c) => {
            let key = reserve(ctx);
            let node = env.state.constant(md(*c));
            sh.fill_dyn(key, &node);
            node
        }
        Tm::LhsConst(d) => {
            let key = reserve(ctx);
            let node = env.state.constant(md(ctx.lhs[*d]));
            sh.fill_dyn(key, &node);
            node
        }
        Tm::ScopedVar(c) => {
            let key = reserve(ctx);
            let v = env.state.var_current_scope(md(ctx.lhs.last().copied().unwrap_or(0) + c));
            let node = v.watch();
            drop(v);
            sh.fill_dyn(key, &node);
            node
        }
        Tm::Map(f, a) => {
            let child = build_tm(a, ctx, env);
            let key = reserve(ctx);
            let (f, envc) = (*f, env.clone());
            let node = child.map(move |x| {
                let sh = &envc.sh;
                sh.tick("map");
                let r = f.ap(*x);
                sh.log(Event::Invoke { key: NodeKey::Dyn(key), args: vec![Val::I(*x)], result: Val::I(r) });
                r
            });
            sh.fill_dyn(key, &node);
            node
        }
        Tm::MapCap(f, a, d) => {
            let child = build_tm(a, ctx, env);
            let key = reserve(ctx);
            let captured = ctx.lhs[*d];
            let (f, envc) = (*f, env.clone());
            let node = child.map(move |x| {
                let sh = &envc.sh;
                sh.tick("map");
                let r = f.ap(*x, captured);
                sh.log(Event::Invoke { key: NodeKey::Dyn(key), args: vec![Val::I(*x)], result: Val::I(r) });
                r
            });
            sh.fill_dyn(key, &node);
            node
        }
        Tm::Map2(f, a, b) => {
            let ca = build_tm(a, ctx, env);
            let cb = build_tm(b, ctx, env);
            let key = reserve(ctx);
            let (f, envc) = (*f, env.clone());
            let node = ca.map2(&cb, move |x, y| {
                let sh = &envc.sh;
                sh.tick("map2");
                let r = f.ap(*x, *y);
                sh.log(Event::Invoke {
                    key: NodeKey::Dyn(key),
                    args: vec![Val::I(*x), Val::I(*y)],
                    result: Val::I(r),
                });
                r
            });
            sh.fill_dyn(key, &node);
            node
        }
        Tm::Fold(f, init, ts) => {
            let children: Vec<Incr<i64>> = ts.iter().map(|t| build_tm(t, ctx, env)).collect();
            let key = reserve(ctx);
            let (f, envc) = (*f, env.clone());
            let st = env.state.upgrade().expect("verif: state gone");
            let node = st.fold(children, md(*init), move |acc, x| {
                let sh = &envc.sh;
                sh.tick("fold");
                let r = f.ap(acc, *x);
                sh.log(Event::FoldStep { key: NodeKey::Dyn(key), acc, x: *x, result: r });
                r
            });
            sh.fill_dyn(key, &node);
            node
        }
        Tm::Scratch(a, b) => {
            {
                let mut sctx = ctx.clone();
                sctx.scratch = true;
                let tmp = build_tm(a, &sctx, env);
                drop(tmp);
            }
            build_tm(b, ctx, env)
        }
        Tm::Keep(a, b) => {
            let kept = build_tm(a, ctx, env);
            if !sh.tearing_down.get() {
                let mut ring = sh.kept.borrow_mut();
                ring.push_back(kept);
                if ring.len() > 12 {
                    ring.pop_front();
                }
            }
            build_tm(b, ctx, env)
        }
        Tm::Bind(lhs_tm, shared, table) => {
            let lhs = build_tm(lhs_tm, ctx, env);
            let shared_node = shared.as_ref().map(|s| build_tm(s, ctx, env));
            let key = reserve(ctx);
            let gen = Cell::new(0u32);
            let outer = ctx.clone();
            let (envc, table, shared_tm) = (env.clone(), table.clone(), shared.clone());
            let node = lhs.bind(move |lv: &i64| {
                let sh = &envc.sh;
                sh.tick("bind");
                let g = gen.get() + 1;
                gen.set(g);
                sh.log(Event::BindRun { bind: NodeKey::Dyn(key), gen: g, lhs: *lv });
                let mut inner = outer.clone();
                inner.lhs.push(*lv);
                inner.shared_nodes.push(shared_node.clone());
                inner.shared_tms.push(shared_tm.clone());
                inner.scope.push((NodeKey::Dyn(key), g));
                build_tm(&table[table_index(*lv, table.len())], &inner, &envc)
            });
            sh.fill_dyn(key, &node);
            node
        }
    }
}

pub struct Builder {
    pub sh: Rc<Shared>,
    pub tables: TablesWeak,
    pub st: IncrState,
}

impl Builder {
    /// builds the top-level node `id` of the given kind; `get` yields handles of earlier nodes
    pub fn build(&self, id: NodeId, kind: &Kind, get: &dyn Fn(NodeId) -> Handle) -> Handle {
        let sh = self.sh.clone();
        let key = NodeKey::Top(id);
        let tok = sh.token();
        match kind {
            Kind::Var(_) => panic!("verif: vars are created through NewVar"),
            Kind::Const(Val::I(c)) => Handle::I(self.st.constant(*c)),
            Kind::Const(Val::P(a, b)) => Handle::P(self.st.constant((*a, *b))),
            Kind::Map(f, a) => {
                let f = *f;
                Handle::I(get(*a).i().map(move |x| {
                    let _ = &tok;
                    sh.tick("map");
                    let r = f.ap(*x);
                    sh.log(Event::Invoke { key, args: vec![Val::I(*x)], result: Val::I(r) });
                    r
                }))
            }
            Kind::MapCyclic(f, a) => {
                let f = *f;
                Handle::I(get(*a).i().map_cyclic(move |_me, x| {
                    let _ = &tok;
                    sh.tick("map");
                    let r = f.ap(*x);
                    sh.log(Event::Invoke { key, args: vec![Val::I(*x)], result: Val::I(r) });
                    r
                }))
            }
            Kind::Enumerate(f, a) => {
                let f = *f;
                Handle::I(get(*a).i().enumerate(move |_n, x| {
                    let _ = &tok;
                    sh.tick("map");
                    let r = f.ap(*x);
                    sh.log(Event::Invoke { key, args: vec![Val::I(*x)], result: Val::I(r) });
                    r
                }))
            }
            Kind::Writer(f, a, script) => {
                let f = *f;
                let script = script.clone();
                let tables = self.tables.clone();
                Handle::I(get(*a).i().map(move |x| {
                    let _ = &tok;
                    sh.tick("map");
                    let r = f.ap(*x);
                    sh.log(Event::Invoke { key, args: vec![Val::I(*x)], result: Val::I(r) });
                    run_script(Who::Node(key), &script, &sh, &tables);
                    r
                }))
            }
            Kind::MapP(f, a) => {
                let f = *f;
                Handle::I(get(*a).p().map(move |p| {
                    let _ = &tok;
                    sh.tick("map");
                    let r = f.ap(p.0, p.1);
                    sh.log(Event::Invoke { key, args: vec![Val::P(p.0, p.1)], result: Val::I(r) });
                    r
                }))
            }
            Kind::MapWithOld(f, a, truthful) => {
                let (f, truthful) = (*f, *truthful);
                Handle::I(get(*a).i().map_with_old(move |old: Option<i64>, x| {
                    let _ = &tok;
                    sh.tick("map_with_old");
                    let r = f.ap(*x);
                    let changed = if truthful { old != Some(r) } else { true };
                    sh.log(Event::Invoke {
                        key,
                        args: vec![Val::I(*x), Val::I(old.unwrap_or(-1))],
                        result: Val::I(r),
                    });
                    (r, changed)
                }))
            }
            Kind::MapWithOldPair(f, a, truthful) => {
                let (f, truthful) = (*f, *truthful);
                Handle::P(get(*a).i().map_with_old(move |old: Option<(i64, i64)>, x| {
                    let _ = &tok;
                    sh.tick("map_with_old");
                    let r = (*x, f.ap(*x));
                    let changed = if truthful { old != Some(r) } else { true };
                    sh.log(Event::Invoke {
                        key,
                        args: vec![Val::I(*x), old.map(|o| Val::P(o.0, o.1)).unwrap_or(Val::I(-1))],
                        result: Val::P(r.0, r.1),
                    });
                    (r, changed)
                }))
            }
            Kind::MapHold(f, a, var) => {
                let f = *f;
                let var = *var;
                let held: Option<incremental::Var<i64>> = self.tables.upgrade().and_then(|t| match t.borrow().vars.get(var) {
                    Some(Some(VarH::I(v))) => Some(v.clone()),
                    _ => None,
                });
                Handle::I(get(*a).i().map(move |x| {
                    let _ = &tok;
                    sh.tick("map");
                    let r = f.ap(*x);
                    sh.log(Event::Invoke { key, args: vec![Val::I(*x)], result: Val::I(r) });
                    if let Some(v) = &held {
                        sh.log(Event::ClosureReadVar { who: Who::Node(key), var, got: Val::I(v.get()) });
                    }
                    r
                }))
            }
            Kind::Map2(f, a, b) => {
                let f = *f;
                let (ha, hb) = (get(*a), get(*b));
                Handle::I(ha.i().map2(hb.i(), move |x, y| {
                    let _ = &tok;
                    sh.tick("map2");
                    let r = f.ap(*x, *y);
                    sh.log(Event::Invoke { key, args: vec![Val::I(*x), Val::I(*y)], result: Val::I(r) });
                    r
                }))
            }
            Kind::MapN(w, inputs, syntax) => {
                let hs: Vec<Incr<i64>> = inputs.iter().map(|n| get(*n).i().clone()).collect();
                let w = w.clone();
                let logit = move |xs: &[i64]| {
                    let _ = &tok;
                    sh.tick("mapn");
                    let r = weighted(&w, xs);
                    sh.log(Event::Invoke { key, args: xs.iter().map(|x| Val::I(*x)).collect(), result: Val::I(r) });
                    r
                };
                let node = match (hs.len(), *syntax) {
                    (3, false) => hs[0].map3(&hs[1], &hs[2], move |a, b, c| logit(&[*a, *b, *c])),
                    (3, true) => (&hs[0] % &hs[1] % &hs[2]).map(move |a, b, c| logit(&[*a, *b, *c])),
                    (4, false) => hs[0].map4(&hs[1], &hs[2], &hs[3], move |a, b, c, d| logit(&[*a, *b, *c, *d])),
                    (4, true) => (&hs[0] % &hs[1] % &hs[2] % &hs[3]).map(move |a, b, c, d| logit(&[*a, *b, *c, *d])),
                    (5, false) => hs[0]
                        .map5(&hs[1], &hs[2], &hs[3], &hs[4], move |a, b, c, d, e| logit(&[*a, *b, *c, *d, *e])),
                    (5, true) => (&hs[0] % &hs[1] % &hs[2] % &hs[3] % &hs[4])
                        .map(move |a, b, c, d, e| logit(&[*a, *b, *c, *d, *e])),
                    (6, false) => hs[0].map6(&hs[1], &hs[2], &hs[3], &hs[4], &hs[5], move |a, b, c, d, e, g| {
                        logit(&[*a, *b, *c, *d, *e, *g])
                    }),
                    (6, true) => (&hs[0] % &hs[1] % &hs[2] % &hs[3] % &hs[4] % &hs[5])
                        .map(move |a, b, c, d, e, g| logit(&[*a, *b, *c, *d, *e, *g])),
                    _ => panic!("verif: MapN arity"),
                };
                Handle::I(node)
            }
            Kind::Fold(f, init, inputs) => {
                let hs: Vec<Incr<i64>> = inputs.iter().map(|n| get(*n).i().clone()).collect();
                let f = *f;
                Handle::I(self.st.fold(hs, md(*init), move |acc, x| {
                    let _ = &tok;
                    sh.tick("fold");
                    let r = f.ap(acc, *x);
                    sh.log(Event::FoldStep { key, acc, x: *x, result: r });
                    r
                }))
            }
            Kind::Zip(a, b) => {
                let (ha, hb) = (get(*a), get(*b));
                Handle::P(ha.i().zip(hb.i()))
            }
            Kind::MapRef(proj, a) => {
                let proj = *proj;
                // the projection is a user function too: inside a stabilise it may only run for
                // nodes some live observer needs (it runs several times per round, legitimately)
                let (sh1, sh2) = (sh.clone(), sh.clone());
                match get(*a) {
                    Handle::P(h) => Handle::I(h.map_ref(move |p| {
                        if sh1.stabilising.get() {
                            sh1.log(Event::Projection { key });
                            sh1.tick("projection");
                        }
                        if proj == 0 { &p.0 } else { &p.1 }
                    })),
                    // a projection of an integer node is the identity projection (stacked map_refs)
                    Handle::I(h) => Handle::I(h.map_ref(move |x| {
                        if sh2.stabilising.get() {
                            sh2.log(Event::Projection { key });
                            sh2.tick("projection");
                        }
                        x
                    })),
                }
            }
            Kind::DependOn(a, on) => {
                let ha = get(*a);
                match get(*on) {
                    Handle::I(o) => Handle::I(ha.i().depend_on(&o)),
                    Handle::P(o) => Handle::I(ha.i().depend_on(&o)),
                }
            }
            Kind::Bind(lhs, table) => {
                let mut refs = Vec::new();
                for t in table {
                    collect_refs(t, &mut refs);
                }
                let refs: HashMap<NodeId, Incr<i64>> = refs.into_iter().map(|n| (n, get(n).i().clone())).collect();
                let env = Rc::new(BindEnv { sh: sh.clone(), refs, state: self.st.weak(), tok });
                let table = table.clone();
                let gen = Cell::new(0u32);
                let closure = move |lv: &i64| {
                    let sh = &env.sh;
                    sh.tick("bind");
                    let g = gen.get() + 1;
                    gen.set(g);
                    sh.log(Event::BindRun { bind: key, gen: g, lhs: *lv });
                    let ctx = BuildCtx {
                        lhs: vec![*lv],
                        shared_nodes: vec![None],
                        shared_tms: vec![None],
                        scope: vec![(key, g)],
                        scratch: false,
                    };
                    build_tm(&table[table_index(*lv, table.len())], &ctx, &env)
                };
                let l = get(*lhs);
                if id % 2 == 0 {
                    Handle::I(l.i().bind(closure))
                } else {
                    let mut closure = closure;
                    Handle::I(l.i().binds(move |_st, lv| closure(lv)))
                }
            }
            Kind::Adopted(d) => {
                let reg = self.sh.registry.borrow();
                let incr = reg[*d].weak.as_ref().and_then(|w| w.upgrade()).expect("verif: adopting a dead node");
                Handle::I(incr)
            }
        }
    }
}
