//! Pure reference model: from-scratch evaluation of the DSL and dependency cones.

use super::rt::{DynEntry, TmCtx};
use super::spec::*;
use std::collections::{HashMap, HashSet};
use std::rc::Rc;

#[derive(Clone, Debug)]
pub struct NodeInfo {
    pub kind: Kind,
    pub ty: Ty,
    /// depends (through any path) on a node adopted from a bind scope
    pub tainted: bool,
    pub cutoff: CutoffKind,
    pub handle_alive: bool,
}

#[derive(Clone, Debug)]
pub struct VarInfo {
    pub cur: Val,
    pub pending: Option<Val>,
    pub node: NodeId,
    pub handle_alive: bool,
    /// written (by any operation) since the last stabilise call started
    pub written: bool,
    /// written since its node was last recomputed: 0 no, 1 yes, 2 cannot tell
    pub dirty: u8,
}

/// the part of a registry entry the model needs
#[derive(Clone)]
pub struct DynInfo {
    pub scope: Vec<(NodeKey, u32)>,
    pub tm: Rc<Tm>,
    pub ctx: TmCtx,
    pub scratch: bool,
}

impl DynInfo {
    pub fn of(e: &DynEntry) -> DynInfo {
        DynInfo { scope: e.scope.clone(), tm: e.tm.clone(), ctx: e.ctx.clone(), scratch: e.scratch }
    }
}

#[derive(Default)]
pub struct Model {
    pub nodes: Vec<NodeInfo>,
    pub vars: Vec<VarInfo>,
    pub dyns: Vec<DynInfo>,
    /// generation in force per bind (from BindRun events): (generation, lhs value)
    pub bind_force: HashMap<NodeKey, (u32, i64)>,
}

pub fn trunc(ctx: &TmCtx, d: usize) -> TmCtx {
    TmCtx { lhs: ctx.lhs[..d].to_vec(), shared: ctx.shared[..d].to_vec() }
}

pub fn push(ctx: &TmCtx, lv: i64, shared: &Option<Rc<Tm>>) -> TmCtx {
    let mut c = ctx.clone();
    c.lhs.push(lv);
    c.shared.push(shared.clone());
    c
}

pub fn tidx(lv: i64, len: usize) -> usize {
    lv.rem_euclid(len as i64) as usize
}

impl Model {
    pub fn dyn_valid(&self, d: DynKey) -> bool {
        self.dyns[d]
            .scope
            .iter()
            .all(|(b, g)| self.bind_force.get(b).map_or(false, |(cur, _)| cur == g))
    }

    pub fn env(&self) -> Vec<Val> {
        self.vars.iter().map(|v| v.cur).collect()
    }

    /// direct inputs of a dynamically created node, as closed terms
    pub fn dyn_inputs(&self, d: DynKey) -> Vec<(Rc<Tm>, TmCtx)> {
        let e = &self.dyns[d];
        match &*e.tm {
            Tm::Map(_, a) | Tm::MapCap(_, a, _) => vec![(a.clone(), e.ctx.clone())],
            Tm::Map2(_, a, b) => vec![(a.clone(), e.ctx.clone()), (b.clone(), e.ctx.clone())],
            Tm::Fold(_, _, ts) => ts.iter().map(|t| (t.clone(), e.ctx.clone())).collect(),
            _ => vec![],
        }
    }
}

pub struct Eval<'a> {
    pub m: &'a Model,
    pub env: &'a [Val],
    memo: Vec<Option<Option<Val>>>,
}

impl<'a> Eval<'a> {
    pub fn new(m: &'a Model, env: &'a [Val]) -> Self {
        Eval { m, env, memo: vec![None; m.nodes.len()] }
    }

    /// None = the node is invalid
    pub fn node(&mut self, n: NodeId) -> Option<Val> {
        if let Some(v) = self.memo[n] {
            return v;
        }
        let kind = self.m.nodes[n].kind.clone();
        let v = self.node_uncached(&kind);
        self.memo[n] = Some(v);
        v
    }

    fn int(&mut self, n: NodeId) -> Option<i64> {
        self.node(n).map(|v| v.i())
    }

    fn node_uncached(&mut self, kind: &Kind) -> Option<Val> {
        Some(match kind {
            Kind::Var(v) => self.env[*v],
            Kind::Const(c) => *c,
            Kind::Map(f, a) | Kind::MapCyclic(f, a) | Kind::Enumerate(f, a) | Kind::Writer(f, a, _) | Kind::MapHold(f, a, _) => {
                Val::I(f.ap(self.int(*a)?))
            }
            Kind::MapWithOldPair(f, a, _) => {
                let x = self.int(*a)?;
                Val::P(x, f.ap(x))
            }
            Kind::MapWithOld(f, a, _) => Val::I(f.ap(self.int(*a)?)),
            Kind::Map2(f, a, b) => Val::I(f.ap(self.int(*a)?, self.int(*b)?)),
            Kind::MapN(w, ins, _) => {
                let mut xs = Vec::new();
                for i in ins {
                    xs.push(self.int(*i)?);
                }
                Val::I(weighted(w, &xs))
            }
            Kind::Fold(f, init, ins) => {
                let mut acc = md(*init);
                for i in ins {
                    acc = f.ap(acc, self.int(*i)?);
                }
                Val::I(acc)
            }
            Kind::Zip(a, b) => Val::P(self.int(*a)?, self.int(*b)?),
            Kind::MapRef(proj, a) => match self.node(*a)? {
                Val::P(x, y) => Val::I(if *proj == 0 { x } else { y }),
                Val::I(x) => Val::I(x),
            },
            Kind::MapP(f, a) => match self.node(*a)? {
                Val::P(x, y) => Val::I(f.ap(x, y)),
                Val::I(x) => Val::I(f.ap(x, x)),
            },
            Kind::DependOn(a, on) => {
                self.node(*on)?;
                Val::I(self.int(*a)?)
            }
            Kind::Bind(lhs, table) => {
                let lv = self.int(*lhs)?;
                let ctx = TmCtx { lhs: vec![lv], shared: vec![None] };
                Val::I(self.tm(&table[tidx(lv, table.len())], &ctx)?)
            }
            Kind::Adopted(d) => {
                if !self.m.dyn_valid(*d) {
                    return None;
                }
                let e = &self.m.dyns[*d];
                let (tm, ctx) = (e.tm.clone(), e.ctx.clone());
                Val::I(self.tm(&tm, &ctx)?)
            }
        })
    }

    pub fn tm(&mut self, tm: &Tm, ctx: &TmCtx) -> Option<i64> {
        Some(match tm {
            Tm::Ref(n) => self.int(*n)?,
            Tm::Const(c) => md(*c),
            Tm::LhsConst(d) => md(ctx.lhs[*d]),
            Tm::Map(f, a) => f.ap(self.tm(a, ctx)?),
            Tm::MapCap(f, a, d) => f.ap(self.tm(a, ctx)?, ctx.lhs[*d]),
            Tm::Map2(f, a, b) => f.ap(self.tm(a, ctx)?, self.tm(b, ctx)?),
            Tm::Fold(f, init, ts) => {
                let mut acc = md(*init);
                for t in ts {
                    acc = f.ap(acc, self.tm(t, ctx)?);
                }
                acc
            }
            Tm::Scratch(_, b) | Tm::Keep(_, b) => self.tm(b, ctx)?,
            Tm::ScopedVar(c) => md(ctx.lhs.last().copied().unwrap_or(0) + c),
            Tm::Shared(d) => {
                let s = ctx.shared[*d].clone().expect("verif: missing shared term");
                self.tm(&s, &trunc(ctx, *d))?
            }
            Tm::Bind(l, shared, table) => {
                let lv = self.tm(l, ctx)?;
                let inner = push(ctx, lv, shared);
                self.tm(&table[tidx(lv, table.len())], &inner)?
            }
        })
    }
}

#[derive(Clone, Copy, PartialEq, Eq, Debug)]
pub enum ConeMode {
    /// binds expanded through the template selected by the given environment
    End,
    /// top-level binds expanded through the generation in force, nested binds through every
    /// alternative (an over-approximation)
    Start,
    /// everything that may legitimately be computed during the round: top-level binds expanded
    /// through the generation in force *and* the template selected by the environment
    Union,
    /// like Start, but nested binds contribute nothing: a subset of what was necessary before
    StartUnder,
    /// nodes that are necessary throughout the coming round whatever the engine's order: reached
    /// without passing through the right-hand side of a bind that re-runs in it
    Stable,
}

pub struct Cone<'a, 'b> {
    pub ev: &'b mut Eval<'a>,
    pub mode: ConeMode,
    pub nodes: HashSet<NodeId>,
}

impl<'a, 'b> Cone<'a, 'b> {
    pub fn new(ev: &'b mut Eval<'a>, mode: ConeMode) -> Self {
        Cone { ev, mode, nodes: HashSet::new() }
    }

    pub fn visit(&mut self, n: NodeId) {
        if !self.nodes.insert(n) {
            return;
        }
        let m = self.ev.m;
        if matches!(self.mode, ConeMode::End | ConeMode::StartUnder | ConeMode::Stable) && self.ev.node(n).is_none() {
            // an invalid node has been unlinked from its inputs (the over-approximating modes keep
            // going, which is harmless for them)
            return;
        }
        match &m.nodes[n].kind {
            Kind::Bind(lhs, table) => {
                self.visit(*lhs);
                if matches!(self.mode, ConeMode::End | ConeMode::Union) {
                    if let Some(lv) = self.ev.node(*lhs).map(|v| v.i()) {
                        let ctx = TmCtx { lhs: vec![lv], shared: vec![None] };
                        self.visit_tm(&table[tidx(lv, table.len())].clone(), &ctx);
                    }
                }
                if self.mode == ConeMode::Stable {
                    if let (Some((_, lv)), Some(now)) = (m.bind_force.get(&NodeKey::Top(n)), self.ev.node(*lhs).map(|v| v.i())) {
                        if *lv == now {
                            let ctx = TmCtx { lhs: vec![*lv], shared: vec![None] };
                            self.visit_tm(&table[tidx(*lv, table.len())].clone(), &ctx);
                        }
                    }
                }
                if matches!(self.mode, ConeMode::Start | ConeMode::Union | ConeMode::StartUnder) {
                    if let Some((_, lv)) = m.bind_force.get(&NodeKey::Top(n)) {
                        let ctx = TmCtx { lhs: vec![*lv], shared: vec![None] };
                        self.visit_tm(&table[tidx(*lv, table.len())].clone(), &ctx);
                    }
                }
            }
            Kind::Adopted(d) => {
                if m.dyn_valid(*d) {
                    let e = &m.dyns[*d];
                    if self.mode == ConeMode::Stable {
                        // the node is only there for the whole round if the bind that made it does
                        // not re-run in it (it is invalidated, and lets go of its inputs, when it does);
                        // nodes of nested scopes are not followed at all
                        let stays = match e.scope.as_slice() {
                            [(NodeKey::Top(b), _)] => match (&m.nodes[*b].kind, m.bind_force.get(&NodeKey::Top(*b))) {
                                (Kind::Bind(lhs, _), Some((_, lv))) => self.ev.node(*lhs).map(|v| v.i()) == Some(*lv),
                                _ => false,
                            },
                            _ => false,
                        };
                        if !stays {
                            return;
                        }
                    }
                    self.visit_tm(&e.tm.clone(), &e.ctx.clone());
                }
            }
            k => {
                for i in k.inputs() {
                    self.visit(i);
                }
            }
        }
    }

    pub fn visit_tm(&mut self, tm: &Tm, ctx: &TmCtx) {
        match tm {
            Tm::Ref(n) => self.visit(*n),
            Tm::Const(_) | Tm::LhsConst(_) | Tm::ScopedVar(_) => {}
            Tm::Map(_, a) | Tm::MapCap(_, a, _) => self.visit_tm(a, ctx),
            Tm::Map2(_, a, b) => {
                self.visit_tm(a, ctx);
                self.visit_tm(b, ctx);
            }
            Tm::Fold(_, _, ts) => {
                for t in ts {
                    self.visit_tm(t, ctx);
                }
            }
            Tm::Scratch(_, b) | Tm::Keep(_, b) => self.visit_tm(b, ctx),
            Tm::Shared(d) => {
                if let Some(s) = ctx.shared[*d].clone() {
                    self.visit_tm(&s, &trunc(ctx, *d));
                }
            }
            Tm::Bind(l, shared, table) => {
                self.visit_tm(l, ctx);
                match self.mode {
                    ConeMode::End => {
                        if let Some(lv) = self.ev.tm(l, ctx) {
                            let inner = push(ctx, lv, shared);
                            self.visit_tm(&table[tidx(lv, table.len())], &inner);
                        }
                    }
                    ConeMode::Start | ConeMode::Union => {
                        let inner = push(ctx, 0, shared);
                        for t in table {
                            self.visit_tm(t, &inner);
                        }
                    }
                    ConeMode::StartUnder | ConeMode::Stable => {}
                }
            }
        }
    }
}
