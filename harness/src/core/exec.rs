//! Executes histories against the real engine with every monitor attached.

use super::build::*;
use super::model::*;
use super::rt::*;
use super::spec::*;
use incremental::{IncrState, SubscriptionToken};
use std::cell::RefCell;
use std::collections::{HashMap, HashSet};
use std::panic::{catch_unwind, AssertUnwindSafe};
use std::rc::Rc;

#[derive(Clone, Debug)]
pub struct Violation {
    pub prop: &'static str,
    pub msg: String,
    pub action_index: usize,
}

#[derive(Clone, Copy, PartialEq, Eq, Debug)]
pub enum ObsState {
    Created,
    InUse,
    Gone,
}

pub struct ObsRec {
    pub node: NodeId,
    pub state: ObsState,
    /// value read right after the last stabilise
    pub snapshot: Option<Read>,
    /// reference value (None = invalid) at the end of the previous round in which it was in use
    pub last_ref: Option<Option<Val>>,
    pub clones: usize,
}

#[derive(Clone, Copy, PartialEq, Eq, Debug)]
pub enum SubPhase {
    Fresh,
    Delivered,
    Invalidated,
}

pub struct SubRec {
    pub obs: usize,
    pub active: bool,
    pub phase: SubPhase,
    /// number of stabilise calls started when it was created (+1 if created inside a handler)
    pub eligible_from_round: u32,
    pub deliveries: Vec<(u32, Upd)>,
    /// the handler owns a guard that cancels this (sibling) subscription when the handler is dropped
    pub guard_target: Option<usize>,
}

#[derive(Default, Clone, Debug)]
pub struct Stats {
    pub actions: u64,
    pub stabilises: u64,
    pub invocations_checked: u64,
    pub fold_passes_checked: u64,
    pub observer_reads_compared: u64,
    pub between_reads_compared: u64,
    pub closure_reads_checked: u64,
    pub closure_writes_checked: u64,
    pub audits: u64,
    pub handler_events_checked: u64,
    pub sub_rounds_judged: u64,
    pub sub_rounds_inconclusive: u64,
    pub bind_runs: u64,
    pub bind_reruns: u64,
    pub reobserve_after_change: u64,
    pub height_switches: u64,
    pub scratch_nodes: u64,
    pub rounds_with_out_of_cone_stale: u64,
    pub rounds_no_observers: u64,
    pub deferred_write_rounds: u64,
    pub multi_deferred_rounds: u64,
    pub invalidations_observed: u64,
    pub stale_gen_rounds: u64,
    pub c03_superseded_with_live: u64,
    pub c06_upper_judged: u64,
    pub c06_lower_judged: u64,
    pub c06_inconclusive: u64,
    pub c06_suppressed_with_dependant: u64,
    pub c06_gap_unsuppressed: u64,
    pub cutoff_events: u64,
    pub c07_writes_between: u64,
    pub c09_multi_sub_unchanged: u64,
    pub downstream_of_bind_invoked: u64,
    pub teardown_nodes_checked: u64,
    pub teardown_tokens_checked: u64,
    pub vars_dropped_in_closures: u64,
    pub value_calls_compared: u64,
    pub one_stabilise_teardowns: u64,
    pub recompute_orders: Vec<u64>,
}

#[derive(Clone, Debug)]
pub struct Config {
    pub audit: bool,
    pub read_all: bool,
    pub c06: bool,
    /// values are only compared with the reference when every cutoff is transparent
    pub compare_values: bool,
}

impl Default for Config {
    fn default() -> Self {
        Config { audit: true, read_all: true, c06: true, compare_values: true }
    }
}

/// per-node knowledge for the C06 oracle
#[derive(Clone, Debug, Default)]
pub struct NodeTrack {
    /// log position of the last invocation (function nodes)
    pub last_invoke_round: Option<u32>,
    pub last_result: Option<Val>,
    /// round of the last result that its cutoff did not suppress; None = never produced
    pub last_unsuppressed_round: Option<u32>,
    /// the node's status could not be followed in some round since (MAY region)
    pub unknown_since: Option<u32>,
    /// value the engine holds for this node, when known
    pub cached: Option<Option<Val>>,
}

pub struct World {
    pub sh: Rc<Shared>,
    pub tables: TablesRef,
    pub st: Option<IncrState>,
    pub handles: Vec<Option<Handle>>,
    pub probes: Vec<Probe>,
    pub model: Model,
    pub observers: Vec<ObsRec>,
    pub subs: Vec<Option<SubRec>>,
    pub violations: Vec<Violation>,
    pub stats: Stats,
    pub cfg: Config,
    pub cursor: usize,
    pub action_index: usize,
    pub poisoned: bool,
    pub track: Vec<NodeTrack>,
    /// any non-transparent cutoff in the program
    pub lossy: bool,
    pub last_cone_end: HashSet<NodeId>,
    pub panic_msg: Option<String>,
    /// C13: inject a panic at the given user-function invocation of the stabilise run by this action
    pub fault: Option<(usize, u64)>,
    /// (action index, steps before, steps after) of every stabilise call
    pub stabilise_steps: Vec<(usize, u64, u64)>,
    /// reference values for the round that was interrupted by the injected panic
    pub fault_refs: Option<Vec<Option<Val>>>,
}

pub fn panic_text(e: &Box<dyn std::any::Any + Send>) -> String {
    if e.downcast_ref::<InjectedPanic>().is_some() {
        "<injected>".to_string()
    } else if let Some(s) = e.downcast_ref::<&str>() {
        s.to_string()
    } else if let Some(s) = e.downcast_ref::<String>() {
        s.clone()
    } else {
        "<non-string panic payload>".to_string()
    }
}

impl World {
    pub fn new(max_height: usize, cfg: Config) -> World {
        let st = IncrState::new_with_height(max_height);
        let sh = Shared::new();
        *sh.weak_state.borrow_mut() = Some(st.weak());
        let tables = Rc::new(RefCell::new(Tables { vars: vec![], observers: vec![], subs: vec![], state: None }));
        World {
            sh,
            tables,
            st: Some(st),
            handles: vec![],
            probes: vec![],
            model: Model::default(),
            observers: vec![],
            subs: vec![],
            violations: vec![],
            stats: Stats::default(),
            cfg,
            cursor: 0,
            action_index: 0,
            poisoned: false,
            track: vec![],
            lossy: false,
            last_cone_end: HashSet::new(),
            panic_msg: None,
            fault: None,
            stabilise_steps: vec![],
            fault_refs: None,
        }
    }

    pub fn violate(&mut self, prop: &'static str, msg: String) {
        if self.violations.len() < 40 {
            self.violations.push(Violation { prop, msg, action_index: self.action_index });
        }
    }

    fn st(&self) -> &IncrState {
        self.st.as_ref().expect("verif: state dropped")
    }

    pub fn rounds(&self) -> u32 {
        self.sh.round.get()
    }

    fn sync_dyns(&mut self) {
        let reg = self.sh.registry.borrow();
        while self.model.dyns.len() < reg.len() {
            let e = &reg[self.model.dyns.len()];
            if e.scratch {
                self.stats.scratch_nodes += 1;
            }
            self.model.dyns.push(DynInfo::of(e));
        }
    }

    fn push_node(&mut self, kind: Kind, h: Handle) -> NodeId {
        let tainted = match &kind {
            Kind::Adopted(_) => true,
            k => k.inputs().iter().any(|i| self.model.nodes[*i].tainted),
        };
        let ty = h.ty();
        self.probes.push(h.strong_probe());
        self.handles.push(Some(h));
        self.model.nodes.push(NodeInfo { kind, ty, tainted, cutoff: CutoffKind::Default, handle_alive: true });
        self.track.push(NodeTrack::default());
        self.model.nodes.len() - 1
    }

    /// Applies one action under catch_unwind. Returns false if the engine panicked.
    pub fn apply(&mut self, action: &Action) -> bool {
        if self.poisoned {
            return false;
        }
        self.stats.actions += 1;
        let r = catch_unwind(AssertUnwindSafe(|| self.apply_inner(action)));
        self.action_index += 1;
        match r {
            Ok(()) => {
                self.after_action(action);
                !self.poisoned
            }
            Err(e) => {
                let msg = panic_text(&e);
                self.poisoned = true;
                self.sh.stabilising.set(false);
                self.panic_msg = Some(msg.clone());
                if msg != "<injected>" {
                    self.action_index -= 1;
                    self.violate("C04", format!("action {:?} panicked: {}", action, msg));
                    self.action_index += 1;
                }
                false
            }
        }
    }

    fn after_action(&mut self, action: &Action) {
        if self.poisoned {
            return;
        }
        let is_stab = matches!(action, Action::Stabilise | Action::StabiliseUntilStable);
        if self.cfg.read_all && !is_stab {
            let r = catch_unwind(AssertUnwindSafe(|| self.read_all_between(action)));
            if let Err(e) = r {
                self.violate("C04", format!("reading observers after {:?} panicked: {}", action, panic_text(&e)));
                self.poisoned = true;
                return;
            }
        }
        if self.cfg.audit {
            self.audit(&format!("{:?}", action));
        }
    }

    #[allow(unused_variables)]
    pub fn audit(&mut self, after: &str) {
        #[cfg(cormacrelf_incremental_rs_verif)]
        {
            let Some(st) = self.st.as_ref() else { return };
            let r = catch_unwind(AssertUnwindSafe(|| st.verif_audit()));
            self.stats.audits += 1;
            match r {
                Ok(lines) => {
                    if !lines.is_empty() {
                        let shown: Vec<_> = lines.iter().take(4).cloned().collect();
                        self.violate("C11", format!("audit after {after}: {}", shown.join(" | ")));
                    }
                }
                Err(e) => {
                    self.violate("C11", format!("audit after {after} panicked: {}", panic_text(&e)));
                    self.poisoned = true;
                }
            }
        }
    }

    fn read_all_between(&mut self, action: &Action) {
        let mut problems = vec![];
        {
            let t = self.tables.borrow();
            for (i, o) in self.observers.iter().enumerate() {
                let Some(h) = t.observers[i].first() else { continue };
                let got = h.read();
                let expected: Read = match o.state {
                    ObsState::Created => Err(ObsErr::NeverStabilised),
                    ObsState::Gone => Err(ObsErr::Disallowed),
                    ObsState::InUse => match &o.snapshot {
                        Some(s) => *s,
                        None => continue,
                    },
                };
                self.stats.between_reads_compared += 1;
                if i % 3 == 0 {
                    // the panicking accessor agrees with the fallible one
                    self.stats.value_calls_compared += 1;
                    let v = h.value_or_panic();
                    if v != got.ok() {
                        problems.push(format!("observer o{i}: value() gave {:?} but try_get_value() gave {:?} (state {:?} x)", v, got, o.state));
                    }
                }
                if got != expected {
                    problems.push(format!(
                        "observer o{i} on n{} returned {:?} after {:?}, expected {:?} (state {:?})",
                        o.node, got, action, expected, o.state
                    ));
                }
                // every clone agrees
                for c in t.observers[i].iter().skip(1) {
                    if c.read() != got {
                        problems.push(format!("clones of observer o{i} disagree"));
                    }
                }
            }
        }
        for p in problems {
            let prop = if p.contains("state Gone") || p.contains("state Created") || p.contains("clones") { "C10" } else { "C07" };
            self.violate(prop, p);
        }
    }

    fn handle(&self, n: NodeId) -> Handle {
        self.handles[n].clone().expect("verif: handle dropped")
    }

    fn apply_inner(&mut self, action: &Action) {
        match action {
            Action::NewVar(v) => {
                let st = self.st().clone();
                let (vh, h) = match v {
                    Val::I(x) => {
                        let var = st.var(*x);
                        let w = var.watch();
                        (VarH::I(var), Handle::I(w))
                    }
                    Val::P(a, b) => {
                        let var = st.var((*a, *b));
                        let w = var.watch();
                        (VarH::P(var), Handle::P(w))
                    }
                };
                let vid = self.model.vars.len();
                self.tables.borrow_mut().vars.push(Some(vh));
                let nid = self.push_node(Kind::Var(vid), h);
                self.model.vars.push(VarInfo { cur: *v, pending: None, node: nid, handle_alive: true, written: true, dirty: 1 });
            }
            Action::Create(kind) => {
                let b = Builder { sh: self.sh.clone(), tables: Rc::downgrade(&self.tables), st: self.st().clone() };
                let id = self.model.nodes.len();
                let handles = &self.handles;
                let h = b.build(id, kind, &|n| handles[n].clone().expect("verif: input handle dropped"));
                // zip of two constants is folded into a new constant by the library
                let mut model_kind = kind.clone();
                if let Kind::Zip(a, b2) = kind {
                    let constant = |n: NodeId| -> Option<i64> {
                        match &self.model.nodes[n].kind {
                            Kind::Const(v) => Some(v.i()),
                            Kind::Fold(_, init, ins) if ins.is_empty() => Some(md(*init)),
                            Kind::Adopted(d) if self.model.dyn_valid(*d) => match &*self.model.dyns[*d].tm {
                                Tm::Const(c) => Some(md(*c)),
                                Tm::LhsConst(l) => Some(md(self.model.dyns[*d].ctx.lhs[*l])),
                                _ => None,
                            },
                            _ => None,
                        }
                    };
                    if let (Some(x), Some(y)) = (constant(*a), constant(*b2)) {
                        model_kind = Kind::Const(Val::P(x, y));
                    }
                }
                let tainted_override = matches!(model_kind, Kind::Const(_));
                let id = self.push_node(model_kind, h);
                if tainted_override {
                    self.model.nodes[id].tainted = false;
                }
            }
            Action::Adopt(d) => {
                let b = Builder { sh: self.sh.clone(), tables: Rc::downgrade(&self.tables), st: self.st().clone() };
                let id = self.model.nodes.len();
                let kind = Kind::Adopted(*d);
                let h = b.build(id, &kind, &|_| unreachable!());
                self.push_node(kind, h);
            }
            Action::Write(var, op) => {
                let (returned, got_after) = {
                    let t = self.tables.borrow();
                    let v = t.vars[*var].as_ref().expect("verif: var dropped");
                    let before = v.get();
                    let r = v.write(op);
                    (r.map(|r| (r, before)), v.get())
                };
                let mv = &mut self.model.vars[*var];
                let (new, old) = op.apply(mv.cur);
                let cur_before = mv.cur;
                mv.cur = new;
                mv.written = true;
                mv.dirty = 1;
                self.stats.closure_writes_checked += 1;
                if let Some((r, before)) = returned {
                    if Some(r) != old || before != cur_before {
                        self.violate("C08", format!("{:?} on v{var} returned {:?}/get {:?}, model {:?}", op, r, before, old));
                    }
                }
                if got_after != new {
                    self.violate("C08", format!("after {:?} v{var}.get() = {:?}, model {:?}", op, got_after, new));
                }
                if self.observers.iter().any(|o| o.state == ObsState::InUse) {
                    self.stats.c07_writes_between += 1;
                }
            }
            Action::SetCutoff(n, kind) => {
                set_cutoff(&self.handle(*n), *kind, NodeKey::Top(*n), &self.sh);
                self.model.nodes[*n].cutoff = *kind;
                if !kind.transparent() {
                    self.lossy = true;
                }
                // what the engine compares against from now on is unchanged, but the decision
                // history of this node is no longer inferable from one kind
                self.track[*n].unknown_since = Some(self.rounds());
            }
            Action::Observe(n) => {
                let o = self.handle(*n).observe();
                self.tables.borrow_mut().observers.push(vec![o]);
                self.observers.push(ObsRec { node: *n, state: ObsState::Created, snapshot: None, last_ref: None, clones: 1 });
            }
            Action::CloneObs(o) => {
                let mut t = self.tables.borrow_mut();
                let c = t.observers[*o][0].clone();
                t.observers[*o].push(c);
                self.observers[*o].clones += 1;
            }
            Action::DropObs(o) => {
                let dropped = self.tables.borrow_mut().observers[*o].pop();
                drop(dropped);
                self.observers[*o].clones -= 1;
                if self.observers[*o].clones == 0 {
                    self.observers[*o].state = ObsState::Gone;
                    self.deactivate_subs_of(*o);
                }
            }
            Action::Disallow(o) => {
                let h = self.tables.borrow().observers[*o][0].clone();
                h.disallow();
                drop(h);
                self.observers[*o].state = ObsState::Gone;
                self.deactivate_subs_of(*o);
            }
            Action::Subscribe(o, script) => {
                let sub = self.sh.next_sub.get();
                self.sh.next_sub.set(sub + 1);
                let h = self.tables.borrow().observers[*o][0].clone();
                let guard = if script.contains(&InOp::GuardSibling) {
                    let t = self.tables.borrow();
                    (0..t.subs.len()).rev().find_map(|j| match t.subs[j] {
                        Some((oo, tk)) if oo == *o => Some((j, tk)),
                        _ => None,
                    })
                } else {
                    None
                };
                let guard_target = guard.map(|g| g.0);
                let guard = guard.map(|(target, token)| SiblingGuard { state: self.st().weak(), token, sh: self.sh.clone(), target, owner: sub });
                let r = subscribe_guarded(&h, &self.sh, &Rc::downgrade(&self.tables), sub, script.clone(), guard);
                drop(h);
                let expect_ok = self.observers[*o].state != ObsState::Gone;
                match (&r, expect_ok) {
                    (Ok(_), true) | (Err(ObsErr::Disallowed), false) => {}
                    _ => self.violate("C10", format!("subscribe on o{o} ({:?}) returned {:?}", self.observers[*o].state, r.as_ref().err())),
                }
                {
                    let mut t = self.tables.borrow_mut();
                    while t.subs.len() <= sub {
                        t.subs.push(None);
                    }
                    if let Ok(tok) = &r {
                        t.subs[sub] = Some((*o, *tok));
                    }
                }
                while self.subs.len() <= sub {
                    self.subs.push(None);
                }
                if r.is_ok() {
                    self.subs[sub] = Some(SubRec {
                        obs: *o,
                        active: true,
                        phase: SubPhase::Fresh,
                        eligible_from_round: self.rounds() + 1,
                        deliveries: vec![],
                        guard_target: if r.is_ok() { guard_target } else { None },
                    });
                }
            }
            Action::Unsubscribe(sub) => {
                let (o, tok) = self.tables.borrow().subs[*sub].expect("verif: unknown sub");
                let h = self.tables.borrow().observers[o][0].clone();
                let r = h.unsubscribe(tok);
                drop(h);
                if r != Ok(()) {
                    self.violate("C10", format!("unsubscribe of own token on o{o} returned {:?}", r));
                }
                self.cancel_with_guards(*sub);
            }
            Action::StateUnsubscribe(sub) => {
                let (_o, tok): (usize, SubscriptionToken) = self.tables.borrow().subs[*sub].expect("verif: unknown sub");
                self.st().unsubscribe(tok);
                self.cancel_with_guards(*sub);
            }
            Action::DropHandle(n) => {
                self.handles[*n] = None;
                self.model.nodes[*n].handle_alive = false;
            }
            Action::DropVar(v) => {
                let var = self.tables.borrow_mut().vars[*v].take();
                drop(var);
                self.model.vars[*v].handle_alive = false;
            }
            Action::Dot => {
                let text = self.st().weak().save_dot_to_string();
                if !text.starts_with("digraph") {
                    self.violate("C04", "save_dot_to_string produced no graph".into());
                }
            }
            Action::SetMaxHeight(h) => {
                self.st().set_max_height_allowed(*h);
            }
            Action::OnUpdate(n) => {
                on_update(&self.handle(*n), *n, &self.sh);
            }
            Action::Stabilise => self.stabilise_once(),
            Action::StabiliseUntilStable => {
                for i in 0..25 {
                    self.stabilise_once();
                    if self.poisoned || self.st().is_stable() {
                        break;
                    }
                    if i == 24 {
                        self.violate("C08", "stabilise-until-stable did not reach a fixed point in 25 rounds".into());
                    }
                }
            }
        }
    }

    fn deactivate_subs_of(&mut self, o: usize) {
        for s in self.subs.iter_mut().flatten() {
            if s.obs == o {
                s.active = false;
            }
        }
    }

    // ------------------------------------------------------------------------------------
    // one stabilise with all monitors
    // ------------------------------------------------------------------------------------
    fn stabilise_once(&mut self) {
        let k = self.sh.round.get() + 1;
        self.sh.round.set(k);
        self.stats.stabilises += 1;
        if std::env::var("VH_TRACE").is_ok() {
            eprintln!("=== before round {k}");
            self.debug_unsafe();
        }
        self.sync_dyns();
        let env = self.model.env();
        let written: Vec<bool> = self.model.vars.iter().map(|v| v.written).collect();
        let dirty_at_start: Vec<u8> = self.model.vars.iter().map(|v| v.dirty).collect();
        for v in self.model.vars.iter_mut() {
            v.written = false;
            v.dirty = 0;
        }
        let live: Vec<usize> = (0..self.observers.len()).filter(|i| self.observers[*i].state != ObsState::Gone).collect();
        let force_before = self.model.bind_force.clone();

        // the cone as the engine has it before the round, and everything that may legitimately be
        // touched during it
        let (cone_start, cone_union, cone_start_under): (HashSet<NodeId>, HashSet<NodeId>, HashSet<NodeId>) = {
            let mut ev = Eval::new(&self.model, &env);
            let mut cs = Cone::new(&mut ev, ConeMode::Start);
            for o in &live {
                cs.visit(self.observers[*o].node);
            }
            let start = cs.nodes;
            let mut cu = Cone::new(&mut ev, ConeMode::Union);
            for o in &live {
                cu.visit(self.observers[*o].node);
            }
            let union = cu.nodes;
            // (used to decide which binds are certainly necessary during the whole round)
            let mut cl = Cone::new(&mut ev, ConeMode::Stable);
            for o in &live {
                if self.observers[*o].state == ObsState::InUse {
                    cl.visit(self.observers[*o].node);
                }
            }
            (start, union, cl.nodes)
        };
        // which nodes were already invalid when the round began
        let invalid_at_start: Vec<bool> = {
            let mut ev = Eval::new(&self.model, &env);
            (0..self.model.nodes.len()).map(|n| ev.node(n).is_none()).collect()
        };

        let ev_start = self.sh.events.borrow().len();
        let stats_before = self.st().stats();
        let steps_before = self.sh.steps.get();
        self.sh.stabilising.set(true);
        self.sh.in_handlers.set(false);
        let st = self.st().clone();
        if let Some((a, off)) = self.fault {
            if a == self.action_index && self.sh.panic_at.get().is_none() {
                self.sh.panic_at.set(Some(steps_before + off));
                self.fault = None;
            }
        }
        let r = catch_unwind(AssertUnwindSafe(|| st.stabilise()));
        self.sh.stabilising.set(false);
        self.sh.panic_at.set(None);
        if let Err(e) = r {
            let msg = panic_text(&e);
            self.poisoned = true;
            self.panic_msg = Some(msg.clone());
            if msg != "<injected>" {
                self.violate("C04", format!("stabilise (round {k}) panicked: {msg}"));
            } else {
                // what a complete propagation of this round yields (needed if the panic came from a handler)
                let events: Vec<Event> = self.sh.events.borrow()[ev_start..].to_vec();
                self.sync_dyns();
                for e in &events {
                    if let Event::BindRun { bind, gen, lhs } = e {
                        self.model.bind_force.insert(*bind, (*gen, *lhs));
                    }
                }
                let mut ev = Eval::new(&self.model, &env);
                self.fault_refs = Some((0..self.model.nodes.len()).map(|n| ev.node(n)).collect());
            }
            return;
        }
        self.stabilise_steps.push((self.action_index, steps_before, self.sh.steps.get()));
        let stats_after = self.st().stats();
        self.sync_dyns();

        let events: Vec<Event> = self.sh.events.borrow()[ev_start..].to_vec();
        self.cursor = ev_start + events.len();
        if std::env::var("VH_TRACE").is_ok() {
            eprintln!("--- round {k} (action {}) env={:?}", self.action_index, env.iter().map(|v| v.short()).collect::<Vec<_>>());
            for e in &events {
                eprintln!("    {:?}", e);
            }
        }

        // bind runs of this round decide which bind-scope nodes are still valid at its end
        for e in &events {
            if let Event::BindRun { bind, gen, lhs } = e {
                self.model.bind_force.insert(*bind, (*gen, *lhs));
            }
        }
        let (cone_end, refs): (HashSet<NodeId>, Vec<Option<Val>>) = {
            let mut ev = Eval::new(&self.model, &env);
            let mut ce = Cone::new(&mut ev, ConeMode::End);
            for o in &live {
                ce.visit(self.observers[*o].node);
            }
            let cone_end = ce.nodes;
            let refs = (0..self.model.nodes.len()).map(|n| ev.node(n)).collect();
            (cone_end, refs)
        };
        // binds whose input changed: their generation in force must not run any more
        let mut stale_gens: HashSet<(NodeKey, u32)> = HashSet::new();
        for n in &cone_end {
            // only binds that are necessary during the whole round: a bind that is linked in (or
            // transiently unlinked) during the round cannot stop independently observed old nodes
            // while it is not part of the computation
            if !cone_start_under.contains(n) {
                continue;
            }
            if let Kind::Bind(lhs, _) = &self.model.nodes[*n].kind {
                if let (Some((g, lv)), Some(now)) = (force_before.get(&NodeKey::Top(*n)), refs[*lhs]) {
                    if now.i() != *lv {
                        stale_gens.insert((NodeKey::Top(*n), *g));
                    }
                }
            }
        }
        if !stale_gens.is_empty() {
            self.stats.stale_gen_rounds += 1;
        }
        if std::env::var("VH_TRACE").is_ok() {
            let mut a: Vec<_> = cone_start_under.iter().collect();
            a.sort();
            let mut b: Vec<_> = cone_end.iter().collect();
            b.sort();
            eprintln!("    cone_start_under={:?} cone_end={:?} stale_gens={:?} live={:?}", a, b, stale_gens, live.iter().map(|o| (o, self.observers[*o].node, self.observers[*o].state)).collect::<Vec<_>>());
        }
        let mut force_now = force_before.clone();

        // ---- sequential scan -----------------------------------------------------------
        let mut invokes: HashMap<NodeKey, Vec<(Vec<Val>, Val)>> = HashMap::new();
        let mut folds: HashMap<NodeKey, Vec<(i64, i64, i64)>> = HashMap::new();
        let mut order_hash: u64 = 0xcbf29ce484222325;
        let mut handlers_started = false;
        let mut handler_events: Vec<(usize, Upd)> = vec![];
        let mut disallowed_in_batch: HashSet<usize> = HashSet::new();
        let mut deferred: HashMap<VarId, usize> = HashMap::new();
        let mut readers_in_writing_round = 0u64;
        let mut pend_applied = false;
        let mut projected_nodes: HashSet<NodeKey> = HashSet::new();
        let mut new_subs: Vec<(usize, usize, bool)> = vec![];
        let mut cancelled_new: HashSet<usize> = HashSet::new();
        let mut cutoffs: HashMap<NodeKey, Vec<(Val, Val, bool)>> = HashMap::new();
        let mut problems: Vec<(&'static str, String)> = vec![];
        let mut unsubscribed_in_batch: HashSet<usize> = HashSet::new();
        let mut vars_dropped_in_round = 0u64;

        macro_rules! dyn_scope_check {
            ($d:expr, $what:expr) => {{
                let d: DynKey = $d;
                if d < self.model.dyns.len() {
                    let scope = self.model.dyns[d].scope.clone();
                    for (b, g) in scope {
                        let cur = force_now.get(&b).map(|x| x.0);
                        if cur != Some(g) {
                            problems.push(("C03", format!(
                                "{} of d{d}, created by run {g} of bind {}, after that bind re-ran (now at run {:?}), round {k}",
                                $what, b.short(), cur
                            )));
                        } else if stale_gens.contains(&(b, g)) {
                            problems.push(("C03", format!(
                                "{} of d{d}, created by run {g} of bind {}, in round {k} although the bind's input had changed (stale captured input)",
                                $what, b.short()
                            )));
                        }
                    }
                }
            }};
        }

        for e in &events {
            if handlers_started {
                if matches!(e, Event::Invoke { .. } | Event::FoldStep { .. } | Event::BindRun { .. } | Event::Cutoff { .. }) {
                    problems.push(("C09", format!("node function ran after update handlers had started in round {k}: {:?}", e)));
                }
            }
            match e {
                Event::Invoke { key, args, result } => {
                    order_hash = (order_hash ^ (match key { NodeKey::Top(n) => *n as u64, NodeKey::Dyn(d) => 1_000_000 + *d as u64 })).wrapping_mul(0x100000001b3);
                    invokes.entry(*key).or_default().push((args.clone(), *result));
                    if let NodeKey::Dyn(d) = key {
                        dyn_scope_check!(*d, "invocation");
                    }
                }
                Event::FoldStep { key, acc, x, result } => {
                    folds.entry(*key).or_default().push((*acc, *x, *result));
                    if let NodeKey::Dyn(d) = key {
                        dyn_scope_check!(*d, "fold step");
                    }
                }
                Event::Cutoff { key, old, new, decision } => {
                    self.stats.cutoff_events += 1;
                    cutoffs.entry(*key).or_default().push((*old, *new, *decision));
                }
                Event::BindRun { bind, gen, lhs } => {
                    self.stats.bind_runs += 1;
                    if *gen > 1 {
                        self.stats.bind_reruns += 1;
                    }
                    if let NodeKey::Dyn(d) = bind {
                        dyn_scope_check!(*d, "bind closure run");
                    }
                    if let Some((g0, _)) = force_now.get(bind) {
                        // did the superseded generation have live nodes?
                        let g0 = *g0;
                        let reg = self.sh.registry.borrow();
                        let live_old = self.model.dyns.iter().enumerate().any(|(i, d)| {
                            d.scope.contains(&(*bind, g0)) && reg[i].weak.as_ref().map_or(false, |w| w.strong_count() > 0)
                        });
                        if live_old {
                            self.stats.c03_superseded_with_live += 1;
                        }
                    }
                    force_now.insert(*bind, (*gen, *lhs));
                    stale_gens.retain(|(b, _)| b != bind);
                    // the closure must see the final value of its input
                    if let NodeKey::Top(n) = bind {
                        if let Kind::Bind(l, _) = &self.model.nodes[*n].kind {
                            if refs[*l].map(|v| v.i()) != Some(*lhs) {
                                problems.push(("C02", format!("bind n{n} closure ran on {lhs} in round {k}, its input's final value is {:?}", refs[*l])));
                            }
                        }
                    }
                }
                Event::Handler { sub, update } => {
                    if !handlers_started {
                        handlers_started = true;
                    }
                    if !pend_applied {
                        pend_applied = true;
                        for v in self.model.vars.iter_mut() {
                            if let Some(p) = v.pending.take() {
                                v.cur = p;
                                v.written = true;
                                v.dirty = 1;
                            }
                        }
                    }
                    handler_events.push((*sub, *update));
                    // no callback runs after unsubscribe / disallow_future_use / dropping the last handle
                    if unsubscribed_in_batch.contains(sub) {
                        problems.push(("C09", format!("handler of subscription s{sub} ran in round {k} after it had been unsubscribed earlier in the same batch")));
                    }
                    if let Some(Some(rec)) = self.subs.get(*sub) {
                        if disallowed_in_batch.contains(&rec.obs) {
                            problems.push(("C09", format!("handler of subscription s{sub} ran in round {k} after its observer o{} had been disallowed or dropped by an earlier handler of the same batch", rec.obs)));
                        }
                    }
                }
                Event::ClosureRead { who, obs, result } => {
                    self.stats.closure_reads_checked += 1;
                    match who {
                        Who::Node(nk) => {
                            if *result != Err(ObsErr::CurrentlyStabilising) {
                                problems.push(("C07", format!("observer o{obs} read from inside the function of {} during round {k} returned {:?}", nk.short(), result)));
                            }
                        }
                        Who::Handler(sub) => {
                            let o = &self.observers[*obs];
                            let expected: Read = if disallowed_in_batch.contains(obs) || o.state == ObsState::Gone {
                                Err(ObsErr::Disallowed)
                            } else {
                                match refs[o.node] {
                                    Some(v) => Ok(v),
                                    None => Err(ObsErr::ObservingInvalid),
                                }
                            };
                            let comparable = self.cfg.compare_values && !self.lossy;
                            if (comparable || expected.is_err() || result.is_err()) && *result != expected {
                                problems.push(("C07", format!("observer o{obs} read from handler s{sub} in round {k} returned {:?}, the fully propagated value is {:?}", result, expected)));
                            }
                        }
                    }
                }
                Event::ClosureReadVar { who, var, got } => {
                    self.stats.closure_reads_checked += 1;
                    let expected = self.model.vars[*var].cur;
                    if *got != expected {
                        problems.push(("C08", format!("v{var}.get() from {:?} in round {k} returned {:?}, expected {:?}", who, got, expected)));
                    }
                }
                Event::ClosureWrite { who, var, op, returned, .. } => {
                    self.stats.closure_writes_checked += 1;
                    let mv = &mut self.model.vars[*var];
                    match who {
                        Who::Node(_) => {
                            let base = mv.pending.unwrap_or(mv.cur);
                            let (new, old) = op.apply(base);
                            mv.pending = Some(new);
                            *deferred.entry(*var).or_default() += 1;
                            if *returned != old {
                                problems.push(("C08", format!("deferred {:?} on v{var} in round {k} returned {:?}, model {:?}", op, returned, old)));
                            }
                        }
                        Who::Handler(_) => {
                            let (new, old) = op.apply(mv.cur);
                            mv.cur = new;
                            mv.written = true;
                            mv.dirty = 1;
                            if *returned != old {
                                problems.push(("C08", format!("{:?} on v{var} from a handler in round {k} returned {:?}, model {:?}", op, returned, old)));
                            }
                        }
                    }
                }
                Event::SubCreated { sub, obs, by, ok } => {
                    let _ = by;
                    new_subs.push((*sub, *obs, *ok));
                }
                Event::Unsub { sub, by, result } => {
                    if *result != Ok(()) {
                        problems.push(("C10", format!("handler s{by} unsubscribing token s{sub} of its own observer got {:?}", result)));
                    }
                    let mut was_active = false;
                    if let Some(s) = self.subs.get_mut(*sub).and_then(|s| s.as_mut()) {
                        was_active = s.active;
                        s.active = false;
                    } else {
                        // a subscription made by a handler earlier in this same batch
                        cancelled_new.insert(*sub);
                    }
                    // (cancelling a token that was already gone changes nothing)
                    if was_active {
                        unsubscribed_in_batch.insert(*sub);
                    }
                }
                Event::DisallowBy { obs, .. } => {
                    disallowed_in_batch.insert(*obs);
                }
                Event::Projection { key } => {
                    projected_nodes.insert(*key);
                }
                Event::NodeUpdate { node, kind, value } => {
                    handlers_started = true;
                    if !pend_applied {
                        pend_applied = true;
                        for v in self.model.vars.iter_mut() {
                            if let Some(p) = v.pending.take() {
                                v.cur = p;
                                v.written = true;
                                v.dirty = 1;
                            }
                        }
                    }
                    if let Some(v) = value {
                        if self.cfg.compare_values && !self.lossy && refs[*node] != Some(*v) {
                            problems.push(("C09", format!("node-level update handler on n{node} was given {:?} in round {k}, the node's fully propagated value is {:?}", v, refs[*node])));
                        }
                    }
                    if *kind == 2 && refs[*node].is_some() {
                        problems.push(("C03", format!("node-level update handler on n{node} was told Invalidated in round {k} but the node is valid")));
                    }
                }
                Event::VarDropped { var, .. } => {
                    self.model.vars[*var].handle_alive = false;
                    vars_dropped_in_round += 1;
                }
            }
        }
        if !pend_applied {
            for v in self.model.vars.iter_mut() {
                if let Some(p) = v.pending.take() {
                    v.cur = p;
                    v.written = true;
                    v.dirty = 1;
                }
            }
        }
        for (sub, obs, ok) in new_subs {
            while self.subs.len() <= sub {
                self.subs.push(None);
            }
            if ok {
                self.subs[sub] = Some(SubRec { obs, active: !cancelled_new.contains(&sub), phase: SubPhase::Fresh, eligible_from_round: k + 1, deliveries: vec![], guard_target: None });
            }
        }
        if !self.stats.recompute_orders.contains(&order_hash) && self.stats.recompute_orders.len() < 4096 {
            self.stats.recompute_orders.push(order_hash);
        }

        // ---- C02: once per round, on final inputs ----------------------------------------
        let comparable = self.cfg.compare_values && !self.lossy;
        let mut invoked_nodes: HashSet<NodeKey> = HashSet::new();
        for (key, calls) in &invokes {
            invoked_nodes.insert(*key);
            self.stats.invocations_checked += calls.len() as u64;
            if calls.len() > 1 {
                problems.push(("C02", format!("{} ran {} times in round {k}: {:?}", key.short(), calls.len(), calls)));
            }
            for (args, result) in calls {
                match key {
                    NodeKey::Top(n) => {
                        let kind = &self.model.nodes[*n].kind;
                        let ins = kind.inputs();
                        let nin = match kind {
                            Kind::MapWithOld(..) | Kind::MapWithOldPair(..) => 1,
                            _ => ins.len(),
                        };
                        for (i, inp) in ins.iter().take(nin).enumerate() {
                            match refs[*inp] {
                                // (an input invalidated later in this very round may legitimately have
                                // fed a computation before that; its own stale runs are judged above)
                                None => {
                                    if invalid_at_start[*inp] {
                                        problems.push(("C03", format!("n{n} ran in round {k} although its input n{inp} was already invalid")));
                                    }
                                }
                                Some(v) => {
                                    if comparable && args.get(i) != Some(&v) {
                                        problems.push(("C02", format!(
                                            "n{n} ({}) ran in round {k} on argument #{i} = {:?}, the final value of n{inp} is {:?}",
                                            kind.name(), args.get(i), v
                                        )));
                                    }
                                }
                            }
                        }
                        if let Kind::MapWithOldPair(..) = kind {
                            let expected_old = self.track[*n].last_result.unwrap_or(Val::I(-1));
                            if comparable && args.get(1) != Some(&expected_old) {
                                problems.push(("C02", format!("map_with_old n{n} received old value {:?} in round {k}, its previous result was {:?}", args.get(1), expected_old)));
                            }
                        }
                        if let Kind::MapWithOld(..) = kind {
                            let expected_old = self.track[*n].last_result.map(|v| v.i()).unwrap_or(-1);
                            if comparable && args.get(1).map(|v| v.i()) != Some(expected_old) {
                                problems.push(("C02", format!("map_with_old n{n} received old value {:?} in round {k}, its previous result was {expected_old}", args.get(1))));
                            }
                        }
                        if comparable {
                            if let Some(r) = refs[*n] {
                                if r != *result {
                                    problems.push(("C01", format!("n{n} produced {:?} in round {k}, reference {:?}", result, r)));
                                }
                            }
                        }
                    }
                    NodeKey::Dyn(d) => {
                        if comparable && *d < self.model.dyns.len() {
                            let inputs = self.model.dyn_inputs(*d);
                            let mut ev = Eval::new(&self.model, &env);
                            for (i, (tm, ctx)) in inputs.iter().enumerate() {
                                if let Some(v) = ev.tm(tm, ctx) {
                                    if args.get(i) != Some(&Val::I(v)) {
                                        problems.push(("C02", format!(
                                            "d{d} ran in round {k} on argument #{i} = {:?}, the final value of that input is {v}",
                                            args.get(i)
                                        )));
                                    }
                                }
                            }
                        }
                    }
                }
            }
        }
        for (key, steps) in &folds {
            invoked_nodes.insert(*key);
            self.stats.fold_passes_checked += 1;
            let (init, f, expected_inputs): (i64, F2, Option<Vec<i64>>) = match key {
                NodeKey::Top(n) => match &self.model.nodes[*n].kind {
                    Kind::Fold(f, init, ins) => {
                        let xs: Option<Vec<i64>> = ins.iter().map(|i| refs[*i].map(|v| v.i())).collect();
                        (md(*init), *f, xs)
                    }
                    _ => continue,
                },
                NodeKey::Dyn(d) => match &*self.model.dyns[*d].tm {
                    Tm::Fold(f, init, _) => {
                        let inputs = self.model.dyn_inputs(*d);
                        let mut ev = Eval::new(&self.model, &env);
                        let xs: Option<Vec<i64>> = inputs.iter().map(|(tm, ctx)| ev.tm(tm, ctx)).collect();
                        (md(*init), *f, xs)
                    }
                    _ => continue,
                },
            };
            let Some(xs) = expected_inputs else {
                let was_invalid = match key {
                    NodeKey::Top(n) => self.model.nodes[*n].kind.inputs().iter().any(|i| invalid_at_start[*i]),
                    NodeKey::Dyn(_) => false,
                };
                if was_invalid {
                    problems.push(("C03", format!("fold {} ran in round {k} although one of its inputs was already invalid", key.short())));
                }
                continue;
            };
            if steps.len() != xs.len() {
                problems.push(("C02", format!("fold {} made {} steps in round {k} over {} inputs (more than one pass?)", key.short(), steps.len(), xs.len())));
                continue;
            }
            let mut acc = init;
            for (i, (a, x, r)) in steps.iter().enumerate() {
                if *a != acc || (comparable && *x != xs[i]) || *r != f.ap(*a, *x) {
                    problems.push(("C02", format!("fold {} step {i} in round {k}: acc={a} x={x}, expected acc={acc} x={}", key.short(), xs[i])));
                    break;
                }
                acc = *r;
            }
        }

        // ---- C05: only the cone is computed ----------------------------------------------
        let mut out_of_cone_stale = false;
        for n in 0..self.model.nodes.len() {
            if !cone_union.contains(&n) && !cone_end.contains(&n) {
                if let Kind::Var(v) = &self.model.nodes[n].kind {
                    if written[*v] {
                        out_of_cone_stale = true;
                    }
                }
            }
        }
        if out_of_cone_stale {
            self.stats.rounds_with_out_of_cone_stale += 1;
        }
        for key in &projected_nodes {
            if let NodeKey::Top(n) = key {
                if !cone_union.contains(n) && !cone_end.contains(n) {
                    problems.push(("C05", format!(
                        "the projection function of n{n} (map_ref) ran in round {k} although the node is not needed by any live observer (live observers: {:?})",
                        live.iter().map(|o| format!("o{o}@n{}", self.observers[*o].node)).collect::<Vec<_>>()
                    )));
                }
            }
        }
        for key in &invoked_nodes {
            match key {
                NodeKey::Top(n) => {
                    if !cone_union.contains(n) && !cone_end.contains(n) {
                        problems.push(("C05", format!(
                            "n{n} ({}) was computed in round {k} but is not needed by any live observer (live observers: {:?})",
                            self.model.nodes[*n].kind.name(),
                            live.iter().map(|o| format!("o{o}@n{}", self.observers[*o].node)).collect::<Vec<_>>()
                        )));
                    }
                }
                NodeKey::Dyn(d) => {
                    // a node built inside a bind is needed only through its top-level bind (or
                    // through an adopted handle)
                    let top = self.model.dyns[*d].scope.first().map(|x| x.0);
                    if let Some(NodeKey::Top(b)) = top {
                        let adopted_in_cone = self.model.nodes.iter().enumerate().any(|(i, ni)| {
                            matches!(&ni.kind, Kind::Adopted(_)) && (cone_union.contains(&i) || cone_end.contains(&i))
                        });
                        if !cone_union.contains(&b) && !cone_end.contains(&b) && !adopted_in_cone {
                            problems.push(("C05", format!("d{d} (inside bind n{b}) was computed in round {k} but the bind is not needed by any live observer")));
                        }
                    }
                }
            }
        }
        if live.is_empty() {
            self.stats.rounds_no_observers += 1;
            let delta = stats_after.recomputed - stats_before.recomputed;
            if delta != 0 {
                problems.push(("C05", format!("stabilise with no live observer recomputed {delta} nodes (round {k})")));
            }
        }

        // ---- observers: lifecycle transition + C01 -----------------------------------------
        for o in &live {
            if self.observers[*o].state == ObsState::Created {
                self.observers[*o].state = ObsState::InUse;
            }
        }
        for o in disallowed_in_batch.iter() {
            self.observers[*o].state = ObsState::Gone;
            self.deactivate_subs_of(*o);
        }
        {
            let t = self.tables.borrow();
            for (i, o) in self.observers.iter_mut().enumerate() {
                o.clones = t.observers[i].len();
            }
        }
        self.stats.vars_dropped_in_closures += vars_dropped_in_round;
        {
            let t = self.tables.borrow();
            for o in &live {
                let rec = &mut self.observers[*o];
                if rec.state != ObsState::InUse {
                    continue;
                }
                let Some(h) = t.observers[*o].first() else { continue };
                let got = match catch_unwind(AssertUnwindSafe(|| h.read())) {
                    Ok(g) => g,
                    Err(e) => {
                        problems.push(("C04", format!("reading o{o} panicked: {}", panic_text(&e))));
                        continue;
                    }
                };
                rec.snapshot = Some(got);
                self.stats.observer_reads_compared += 1;
                let expected: Read = match refs[rec.node] {
                    Some(v) => Ok(v),
                    None => Err(ObsErr::ObservingInvalid),
                };
                let value_comparable = comparable || expected.is_err() || got.is_err();
                if value_comparable && got != expected {
                    let prop = if expected.is_err() || got == Err(ObsErr::ObservingInvalid) { "C03" } else { "C01" };
                    problems.push((prop, format!(
                        "after round {k} observer o{o} on n{} ({}) returned {:?}, from-scratch evaluation gives {:?}",
                        rec.node, self.model.nodes[rec.node].kind.name(), got, expected
                    )));
                }
                if let (Some(Some(prev)), Some(now)) = (rec.last_ref, refs[rec.node]) {
                    let _ = (prev, now);
                } else if rec.last_ref.is_none() {
                    // first round in use: was the cone changed while unobserved?
                    if self.track[rec.node].cached.is_some() && self.track[rec.node].cached != Some(refs[rec.node]) {
                        self.stats.reobserve_after_change += 1;
                    }
                }
            }
        }

        // ---- C09: subscription sequences ---------------------------------------------------
        if comparable {
            self.check_subscriptions(k, &handler_events, &disallowed_in_batch, &unsubscribed_in_batch, &refs, &invoked_nodes, &written, &cutoffs, &mut problems);
        }
        for o in &live {
            let rec = &mut self.observers[*o];
            if rec.state == ObsState::InUse {
                rec.last_ref = Some(refs[rec.node]);
            }
        }

        // ---- C08: deferred writes leave the state unstable ----------------------------------
        if !deferred.is_empty() {
            self.stats.deferred_write_rounds += 1;
            if deferred.values().any(|c| *c >= 2) {
                self.stats.multi_deferred_rounds += 1;
            }
            let _ = &mut readers_in_writing_round;
            // the cone as it stands now (observers disallowed by handlers are still linked until
            // the next stabilise, so only judge vars needed by observers that remain)
            let any_needed = deferred.keys().any(|v| cone_end.contains(&self.model.vars[*v].node));
            if any_needed && disallowed_in_batch.is_empty() && self.st().is_stable() {
                problems.push(("C08", format!("is_stable() is true after round {k} although an observed variable was written during it")));
            }
        }

        for (i, v) in self.model.vars.iter_mut().enumerate() {
            if !cone_end.contains(&v.node) && v.dirty != 1 {
                v.dirty = if dirty_at_start[i] == 1 && cone_union.contains(&v.node) { 2 } else { dirty_at_start[i] };
            }
        }
        // ---- C06 ----------------------------------------------------------------------------
        // the per-node decision tracking of this pass also feeds the C09 expectations (a node whose
        // decision history is not inferable may or may not report a change), so it always runs;
        // its own verdicts are only kept when C06 is being judged
        let bind_ran: HashSet<NodeId> = events
            .iter()
            .filter_map(|e| match e {
                Event::BindRun { bind: NodeKey::Top(n), .. } => Some(*n),
                _ => None,
            })
            .collect();
        if self.cfg.c06 {
            self.check_c06(k, &cone_union, &cone_end, &refs, &invokes, &folds, &cutoffs, &dirty_at_start, &bind_ran, &mut problems);
        } else {
            let mut discarded = vec![];
            self.check_c06(k, &cone_union, &cone_end, &refs, &invokes, &folds, &cutoffs, &dirty_at_start, &bind_ran, &mut discarded);
        }
        // remember what the engine holds for each top-level node
        for n in 0..self.model.nodes.len() {
            if cone_end.contains(&n) {
                self.track[n].cached = Some(refs[n]);
            } else if cone_start.contains(&n) || cone_union.contains(&n) {
                // may or may not have been recomputed before it became unnecessary
                if self.track[n].cached.is_some() && self.track[n].cached != Some(refs[n]) {
                    self.track[n].cached = None;
                }
            }
        }
        // height switch statistics: a bind whose selected right-hand side changed
        for n in &cone_end {
            if matches!(&self.model.nodes[*n].kind, Kind::Bind(..)) {
                let before = force_before.get(&NodeKey::Top(*n)).map(|x| x.1);
                let after = self.model.bind_force.get(&NodeKey::Top(*n)).map(|x| x.1);
                if before.is_some() && before != after {
                    self.stats.height_switches += 1;
                    // anything downstream of the bind that ran?
                    let downstream = invoked_nodes.iter().any(|k2| match k2 {
                        NodeKey::Top(m) => self.model.nodes[*m].kind.inputs().contains(n),
                        _ => false,
                    });
                    if downstream {
                        self.stats.downstream_of_bind_invoked += 1;
                    }
                }
            }
        }
        self.last_cone_end = cone_end;
        problems.extend(self.sh.closure_problems.borrow_mut().drain(..));
        for (p, m) in problems {
            self.violate(p, m);
        }
        // update last results
        for (key, calls) in &invokes {
            if let (NodeKey::Top(n), Some((_, r))) = (key, calls.last()) {
                self.track[*n].last_result = Some(*r);
                self.track[*n].last_invoke_round = Some(k);
            }
        }
        for (key, steps) in &folds {
            if let (NodeKey::Top(n), Some((_, _, r))) = (key, steps.last()) {
                self.track[*n].last_result = Some(Val::I(*r));
                self.track[*n].last_invoke_round = Some(k);
            }
        }
        if self.cfg.audit {
            self.audit(&format!("stabilise #{k}"));
        }
    }

    #[allow(clippy::too_many_arguments)]
    fn check_subscriptions(
        &mut self,
        k: u32,
        handler_events: &[(usize, Upd)],
        disallowed_in_batch: &HashSet<usize>,
        unsubscribed_in_batch: &HashSet<usize>,
        refs: &[Option<Val>],
        invoked: &HashSet<NodeKey>,
        written: &[bool],
        cutoffs: &HashMap<NodeKey, Vec<(Val, Val, bool)>>,
        problems: &mut Vec<(&'static str, String)>,
    ) {
        let comparable = self.cfg.compare_values && !self.lossy;
        let mut got: HashMap<usize, Vec<Upd>> = HashMap::new();
        for (s, u) in handler_events {
            got.entry(*s).or_default().push(*u);
            self.stats.handler_events_checked += 1;
        }
        // per node: how many subscriptions on how many observers, for the trigger statistic
        let mut per_node: HashMap<NodeId, (HashSet<usize>, usize)> = HashMap::new();
        for sub in 0..self.subs.len() {
            let Some(s) = self.subs[sub].as_ref() else { continue };
            let o = &self.observers[s.obs];
            let g = got.remove(&sub).unwrap_or_default();
            // was the observer in use for this round?
            let in_use_now = o.state == ObsState::InUse || disallowed_in_batch.contains(&s.obs);
            let eligible = s.active && in_use_now && s.eligible_from_round <= k && s.phase != SubPhase::Invalidated;
            if !eligible {
                // a handler that unsubscribed itself or disallowed its observer in this very batch
                // was legitimately called once before doing so
                // (the same goes for a subscription cancelled by a sibling's handler in this batch;
                // a delivery *after* the cancellation is flagged where the events are scanned)
                let self_stopped = !s.active && s.eligible_from_round <= k && g.len() == 1 && unsubscribed_in_batch.contains(&sub);
                if !g.is_empty() && !self_stopped && !(disallowed_in_batch.contains(&s.obs) && g.len() == 1) {
                    problems.push(("C09", format!(
                        "subscription s{sub} on o{} received {:?} in round {k} although it is not entitled to events (active={}, observer {:?}, phase {:?}, eligible from round {})",
                        s.obs, g, s.active, o.state, s.phase, s.eligible_from_round
                    )));
                }
                if self_stopped || !g.is_empty() {
                    let s = self.subs[sub].as_mut().unwrap();
                    for u in &g {
                        s.deliveries.push((k, *u));
                    }
                    if s.phase == SubPhase::Fresh && !g.is_empty() {
                        s.phase = SubPhase::Delivered;
                    }
                }
                continue;
            }
            let e = per_node.entry(o.node).or_default();
            e.0.insert(s.obs);
            e.1 += 1;
            let node = o.node;
            let now = refs[node];
            // expected
            #[derive(PartialEq, Debug)]
            enum Exp {
                Exactly(Option<Upd>),
                Either(Upd),
            }
            let expected = match (s.phase, now) {
                (SubPhase::Fresh, None) => Exp::Exactly(Some(Upd::Invalidated)),
                (SubPhase::Fresh, Some(v)) => Exp::Exactly(Some(Upd::Init(v))),
                (SubPhase::Delivered, None) => Exp::Exactly(Some(Upd::Invalidated)),
                (SubPhase::Delivered, Some(v)) => {
                    let prev = o.last_ref.flatten();
                    match self.changed_in_round(node, prev, v, invoked, written, cutoffs) {
                        Some(true) => Exp::Exactly(Some(Upd::Changed(v))),
                        Some(false) => Exp::Exactly(None),
                        None => Exp::Either(Upd::Changed(v)),
                    }
                }
                (SubPhase::Invalidated, _) => Exp::Exactly(None),
            };
            let relaxed = disallowed_in_batch.contains(&s.obs);
            let ok = match &expected {
                Exp::Exactly(None) => g.is_empty(),
                Exp::Exactly(Some(u)) => {
                    (g.len() == 1 && (g[0] == *u || (!comparable && same_shape(g[0], *u)))) || (relaxed && g.is_empty())
                }
                Exp::Either(u) => g.is_empty() || (g.len() == 1 && (g[0] == *u || (!comparable && same_shape(g[0], *u)))),
            };
            if matches!(expected, Exp::Either(_)) {
                self.stats.sub_rounds_inconclusive += 1;
            } else {
                self.stats.sub_rounds_judged += 1;
            }
            if !ok {
                problems.push(("C09", format!(
                    "subscription s{sub} on o{} (n{node}, {}) received {:?} in round {k}, expected {:?} (previous value {:?}, phase {:?})",
                    s.obs, self.model.nodes[node].kind.name(), g, expected, o.last_ref, s.phase
                )));
            }
            // delivered value equals what the observer returns at that moment: checked through
            // ClosureRead events of ReadOwn ops in the sequential scan
            let s = self.subs[sub].as_mut().unwrap();
            for u in &g {
                s.deliveries.push((k, *u));
                match u {
                    Upd::Invalidated => {
                        s.phase = SubPhase::Invalidated;
                        self.stats.invalidations_observed += 1;
                    }
                    _ => s.phase = SubPhase::Delivered,
                }
            }
        }
        for (n, (obs, subs)) in per_node {
            if obs.len() >= 2 && subs >= 2 {
                let o_any = self.observers.iter().find(|o| o.node == n && o.last_ref.is_some());
                if let Some(o) = o_any {
                    if o.last_ref == Some(refs[n]) {
                        self.stats.c09_multi_sub_unchanged += 1;
                    }
                }
            }
        }
        for (sub, g) in got {
            problems.push(("C09", format!("handler of unknown subscription s{sub} ran in round {k}: {:?}", g)));
        }
    }

    /// Did node `n` produce a result in this round that its cutoff did not suppress?
    /// Only called for nodes that were necessary during the previous round and this one.
    fn changed_in_round(
        &self,
        n: NodeId,
        prev: Option<Val>,
        now: Val,
        invoked: &HashSet<NodeKey>,
        written: &[bool],
        cutoffs: &HashMap<NodeKey, Vec<(Val, Val, bool)>>,
    ) -> Option<bool> {
        let info = &self.model.nodes[n];
        let Some(prev) = prev else { return None };
        let ran = invoked.contains(&NodeKey::Top(n));
        match info.cutoff {
            CutoffKind::Default | CutoffKind::FnEq | CutoffKind::LogEq => match &info.kind {
                Kind::MapWithOld(_, _, false) | Kind::MapWithOldPair(_, _, false) => Some(ran),
                Kind::DependOn(..) => {
                    if prev != now {
                        Some(true)
                    } else {
                        None
                    }
                }
                // (a projection that was re-linked may report a change although the value is the
                // same; a real change is always reported)
                Kind::MapRef(..) if self.track[n].unknown_since.is_some() && prev == now => None,
                _ => Some(prev != now),
            },
            CutoffKind::Never | CutoffKind::LogNever => match &info.kind {
                Kind::Var(v) => Some(written[*v]),
                Kind::Map(..) | Kind::Map2(..) | Kind::MapN(..) | Kind::Fold(..) | Kind::MapP(..)
                | Kind::MapCyclic(..) | Kind::Writer(..) | Kind::Enumerate(..) | Kind::MapHold(..) => Some(ran),
                Kind::MapWithOld(_, _, truthful) | Kind::MapWithOldPair(_, _, truthful) => Some(if *truthful { prev != now } else { ran }),
                _ => {
                    if prev != now {
                        Some(true)
                    } else {
                        None
                    }
                }
            },
            CutoffKind::Always => Some(false),
            CutoffKind::LogMod2 => cutoffs.get(&NodeKey::Top(n)).map(|c| c.iter().any(|(_, _, d)| !*d)).or(Some(false)).filter(|_| ran || matches!(info.kind, Kind::Var(_))),
        }
    }

    // ------------------------------------------------------------------------------------
    // C06: cutoffs gate propagation exactly
    // ------------------------------------------------------------------------------------
    #[allow(clippy::too_many_arguments)]
    fn check_c06(
        &mut self,
        k: u32,
        cone_start: &HashSet<NodeId>,
        cone_end: &HashSet<NodeId>,
        refs: &[Option<Val>],
        invokes: &HashMap<NodeKey, Vec<(Vec<Val>, Val)>>,
        folds: &HashMap<NodeKey, Vec<(i64, i64, i64)>>,
        cutoffs: &HashMap<NodeKey, Vec<(Val, Val, bool)>>,
        dirty: &[u8],
        bind_ran: &HashSet<NodeId>,
        problems: &mut Vec<(&'static str, String)>,
    ) {
        // Phase 1: for every top-level node decide whether it produced an unsuppressed result in
        // this round: Some(true) / Some(false) / None (unknown).
        let nn = self.model.nodes.len();
        let mut produced: Vec<Option<bool>> = vec![Some(false); nn];
        let mut ran: Vec<bool> = vec![false; nn];
        let mut results: Vec<Option<Val>> = vec![None; nn];
        for n in 0..nn {
            if let Some(c) = invokes.get(&NodeKey::Top(n)) {
                ran[n] = true;
                results[n] = c.last().map(|x| x.1);
            }
            if let Some(s) = folds.get(&NodeKey::Top(n)) {
                ran[n] = true;
                results[n] = s.last().map(|x| Val::I(x.2));
            }
        }
        for n in 0..nn {
            let info = &self.model.nodes[n];
            let in_end = cone_end.contains(&n);
            let in_start = cone_start.contains(&n);
            let tr = &self.track[n];
            let logged = cutoffs.get(&NodeKey::Top(n));
            // argument order of logged cutoffs
            if let Some(cs) = logged {
                for (old, new, _) in cs {
                    let new_ok = match &info.kind {
                        Kind::Var(_) => refs[n] == Some(*new),
                        _ if ran[n] => results[n] == Some(*new),
                        _ => refs[n] == Some(*new) || self.lossy,
                    };
                    // function nodes: the previous result is known exactly from the log; other nodes:
                    // the value the engine last held for them, when that could be followed
                    let old_ok = if is_fn_node(&info.kind) {
                        tr.last_result.map_or(true, |p| p == *old)
                    } else {
                        match tr.cached {
                            Some(Some(c)) if !self.lossy => c == *old,
                            _ => true,
                        }
                    };
                    if !new_ok || !old_ok {
                        problems.push(("C06", format!(
                            "cutoff of n{n} ({}) consulted with (old={:?}, new={:?}) in round {k}; previous result {:?} / cached {:?}, new result {:?}",
                            info.kind.name(), old, new, tr.last_result, tr.cached, results[n].or(refs[n])
                        )));
                    }
                }
            }
            let is_fn = is_fn_node(&info.kind);
            produced[n] = if is_fn {
                if !ran[n] {
                    Some(false)
                } else if let Kind::MapWithOld(_, _, truthful) | Kind::MapWithOldPair(_, _, truthful) = &info.kind {
                    match (tr.last_result, results[n]) {
                        (None, _) => Some(true),
                        (Some(p), Some(r)) => Some(if *truthful { p != r } else { true }),
                        _ => None,
                    }
                } else {
                    match (tr.last_result, results[n]) {
                        (None, _) => Some(true), // first result
                        (Some(p), Some(r)) => {
                            if info.cutoff.logs() {
                                logged.and_then(|c| c.last()).map(|c| !c.2)
                            } else if tr.unknown_since.is_some() && info.cutoff != CutoffKind::Default {
                                // cutoff was replaced at some point; decisions follow the current kind
                                Some(!info.cutoff.decide(p, r))
                            } else {
                                Some(!info.cutoff.decide(p, r))
                            }
                        }
                        _ => None,
                    }
                }
            } else {
                match &info.kind {
                    Kind::Var(v) => {
                        if !in_end && !in_start {
                            Some(false)
                        } else if !in_end {
                            None
                        } else {
                            // necessary at the end of the round: recomputed iff written since its
                            // last recompute; what it compares against is the cached value
                            match tr.cached {
                                None => None,
                                Some(None) => None,
                                Some(Some(c)) => {
                                    let now = refs[n].unwrap_or(c);
                                    if info.cutoff.logs() {
                                        match logged.and_then(|x| x.last()) {
                                            Some(x) => Some(!x.2),
                                            None => Some(false),
                                        }
                                    } else if dirty[*v] == 0 {
                                        Some(false)
                                    } else if dirty[*v] == 2 {
                                        if info.cutoff.decide(c, now) && !matches!(info.cutoff, CutoffKind::Never) { Some(false) } else { None }
                                    } else if matches!(info.cutoff, CutoffKind::Never) {
                                        Some(true)
                                    } else {
                                        Some(!info.cutoff.decide(c, now))
                                    }
                                }
                            }
                        }
                    }
                    Kind::Const(_) | Kind::Fold(..) => Some(false),
                    // a bind whose closure re-ran in this round and which is needed and valid at
                    // the end has been recomputed (its lhs-change node always reports a change),
                    // also when the closure handed back the same node with the same value: what
                    // its dependants see is then decided by the cutoff of the bind node alone
                    Kind::Bind(..) if bind_ran.contains(&n) && in_end && !self.lossy && matches!((tr.cached, refs[n]), (Some(Some(_)), Some(_))) => {
                        let (c, now) = (tr.cached.unwrap().unwrap(), refs[n].unwrap());
                        if info.cutoff.logs() {
                            logged.and_then(|x| x.last()).map(|x| !x.2)
                        } else {
                            Some(!info.cutoff.decide(c, now))
                        }
                    }
                    // internal nodes without a user function: known only through the values
                    _ => {
                        if !in_end && !in_start {
                            Some(false)
                        } else if !in_end || self.lossy {
                            None
                        } else {
                            match (tr.cached, refs[n]) {
                                (Some(Some(c)), Some(now)) => {
                                    if c != now && matches!(info.cutoff, CutoffKind::Default | CutoffKind::FnEq) {
                                        Some(true)
                                    } else if c == now && matches!(info.cutoff, CutoffKind::Default | CutoffKind::FnEq)
                                        && !matches!(info.kind, Kind::DependOn(..) | Kind::MapRef(..) | Kind::Adopted(..))
                                    {
                                        Some(false)
                                    } else {
                                        None
                                    }
                                }
                                _ => None,
                            }
                        }
                    }
                }
            };
            // first-ever value of an internal node
            if !is_fn && in_end && tr.cached.is_none() && !matches!(info.kind, Kind::Const(_) | Kind::Fold(..)) {
                produced[n] = None;
            }
        }
        // Phase 2: judge every top-level function node
        for n in 0..nn {
            let info = &self.model.nodes[n];
            let is_fn = is_fn_node(&info.kind);
            if !is_fn {
                continue;
            }
            let ins = info.kind.inputs();
            let tr = &self.track[n];
            let first = tr.last_invoke_round.is_none();
            // was the node continuously followed since its last run? (necessary at the end of every
            // round since, or untouched)
            let followed = tr.unknown_since.is_none() || matches!(info.cutoff, CutoffKind::Default);
            let _ = followed;
            if ran[n] && !first {
                // upper bound: some input produced an unsuppressed result since the last run
                let mut any_true = false;
                let mut any_unknown = false;
                for i in &ins {
                    let since = self.track[*i].last_unsuppressed_round;
                    let last_run = tr.last_invoke_round.unwrap();
                    if produced[*i] == Some(true) || since.map_or(false, |r| r > last_run) {
                        any_true = true;
                    }
                    if produced[*i].is_none() || self.track[*i].unknown_since.map_or(false, |r| r >= last_run) {
                        any_unknown = true;
                    }
                }
                if any_true {
                    self.stats.c06_upper_judged += 1;
                } else if any_unknown {
                    self.stats.c06_inconclusive += 1;
                } else {
                    self.stats.c06_upper_judged += 1;
                    problems.push(("C06", format!(
                        "n{n} ({}) was re-invoked in round {k} although none of its inputs {:?} produced an unsuppressed result since it last ran (round {:?})",
                        info.kind.name(), ins, tr.last_invoke_round
                    )));
                }
            }
            if cone_end.contains(&n) && refs[n].is_some() && !ran[n] {
                // lower bound: needed and valid at the end of the round, yet it did not run
                if first {
                    problems.push(("C06", format!("n{n} ({}) is needed by a live observer after round {k} but has never been computed", info.kind.name())));
                    continue;
                }
                let last_run = tr.last_invoke_round.unwrap();
                let mut missed = None;
                let mut unknown = false;
                for i in &ins {
                    if produced[*i] == Some(true) {
                        missed = Some((*i, k));
                    } else if let Some(r) = self.track[*i].last_unsuppressed_round {
                        if r > last_run {
                            missed = Some((*i, r));
                        }
                    }
                    if produced[*i].is_none() {
                        unknown = true;
                    }
                }
                if let Some((i, r)) = missed {
                    self.stats.c06_lower_judged += 1;
                    if r < k {
                        self.stats.c06_gap_unsuppressed += 1;
                    }
                    problems.push(("C06", format!(
                        "n{n} ({}) is needed after round {k} and its input n{i} produced an unsuppressed result in round {r}, but n{n} last ran in round {last_run}",
                        info.kind.name()
                    )));
                } else if unknown {
                    self.stats.c06_inconclusive += 1;
                } else {
                    self.stats.c06_lower_judged += 1;
                }
            }
            if ran[n] && !first {
                let last_run = tr.last_invoke_round.unwrap();
                if ins.iter().any(|i| self.track[*i].last_unsuppressed_round.map_or(false, |r| r > last_run && r < k)) {
                    self.stats.c06_gap_unsuppressed += 1;
                }
            }
        }
        // suppressed result with a needed dependant
        for n in 0..nn {
            if ran[n] && produced[n] == Some(false) {
                let has_dep = (0..nn).any(|m| cone_end.contains(&m) && self.model.nodes[m].kind.inputs().contains(&n));
                if has_dep {
                    self.stats.c06_suppressed_with_dependant += 1;
                }
            }
        }
        // Phase 3: record
        for n in 0..nn {
            match produced[n] {
                Some(true) => {
                    self.track[n].last_unsuppressed_round = Some(k);
                }
                Some(false) => {}
                None => {
                    self.track[n].unknown_since = Some(k);
                    self.track[n].last_unsuppressed_round = self.track[n].last_unsuppressed_round;
                }
            }
        }
    }

    /// observers created since the last stabilise that would make a bind-scope node necessary
    /// while its defining bind is not (upstream restriction, see DESIGN.md section 8 item 13)
    pub fn unsafe_new_observers(&self) -> Vec<usize> {
        let w = self;
        let env = w.model.env();
        let mut ev = Eval::new(&w.model, &env);
        let inuse: Vec<usize> = (0..w.observers.len()).filter(|o| w.observers[*o].state == ObsState::InUse).collect();
        let (cs, ce) = {
            let mut c = Cone::new(&mut ev, ConeMode::StartUnder);
            for o in &inuse {
                c.visit(w.observers[*o].node);
            }
            let cs = c.nodes;
            let mut c = Cone::new(&mut ev, ConeMode::End);
            for o in &inuse {
                c.visit(w.observers[*o].node);
            }
            (cs, c.nodes)
        };
        let mut bad = vec![];
        for o in 0..w.observers.len() {
            if w.observers[o].state != ObsState::Created {
                continue;
            }
            let mut c = Cone::new(&mut ev, ConeMode::Start);
            c.visit(w.observers[o].node);
            let mut nodes = c.nodes;
            let mut c = Cone::new(&mut ev, ConeMode::End);
            c.visit(w.observers[o].node);
            nodes.extend(c.nodes);
            let risky = nodes.iter().any(|n| match &w.model.nodes[*n].kind {
                Kind::Adopted(d) => {
                    // nodes of nested binds: the necessity of the inner bind is not derivable from
                    // the cones of top-level nodes, so they are only observed once invalid
                    w.model.dyn_valid(*d)
                        && match &w.model.dyns[*d].scope[..] {
                            // fine if the bind is necessary throughout, or has been deallocated
                            // altogether (its scope then behaves like the top level)
                            [(NodeKey::Top(b), _)] => !((cs.contains(b) && ce.contains(b)) || !w.probes[*b].alive()),
                            _ => true,
                        }
                }
                _ => false,
            });
            if risky {
                bad.push(o);
            }
        }
        bad
    }


    /// a subscription is cancelled between stabilises: its handler is dropped now, and with it a
    /// guard that cancels a sibling, whose handler may own a guard in turn
    fn cancel_with_guards(&mut self, sub: usize) {
        let mut cur = Some(sub);
        while let Some(x) = cur {
            let Some(rec) = self.subs.get_mut(x).and_then(|s| s.as_mut()) else { break };
            let was_active = rec.active;
            rec.active = false;
            if !was_active {
                break;
            }
            cur = rec.guard_target;
        }
    }

    /// C13: after an injected panic escaped stabilise. Returns the kind of user function that panicked.
    pub fn post_fault_checks(&mut self) -> &'static str {
        let kind = self.sh.step_kinds.borrow().last().copied().unwrap_or("?");
        // a projection that runs because a handler script reads an observer is part of that handler
        let from_handler = kind == "handler" || (kind == "projection" && self.sh.in_handlers.get());
        // a map_ref projection also runs on behalf of the engine after propagation has finished
        // (to decide and to build the update a handler is given): the harness cannot tell those
        // calls from the ones made during propagation without knowing the engine's phase, so after
        // a panic in a projection reads may fail or may answer, but an answer must be the fully
        // propagated value (the clause "never a mix of updated and non-updated nodes")
        let answer_allowed = from_handler || kind == "projection";
        let refs = self.fault_refs.clone().unwrap_or_default();
        let mut problems = vec![];
        {
            let t = self.tables.borrow();
            for (i, o) in self.observers.iter().enumerate() {
                for h in t.observers[i].iter() {
                    let got = match catch_unwind(AssertUnwindSafe(|| h.read())) {
                        Ok(g) => g,
                        Err(e) => {
                            problems.push(format!("reading observer o{i} after the panic panicked: {}", panic_text(&e)));
                            continue;
                        }
                    };
                    self.stats.observer_reads_compared += 1;
                    if got.is_err() {
                        if let Some(v) = h.value_or_panic() {
                            problems.push(format!(
                                "after a panic in a {kind} function escaped stabilise, Observer::value() on o{i} returned {:?} although try_get_value() fails with {:?}",
                                v, got
                            ));
                        }
                    }
                    match got {
                        Err(_) => {}
                        Ok(v) => {
                            if !answer_allowed {
                                problems.push(format!(
                                    "after a panic in a {kind} function escaped stabilise, observer o{i} on n{} still returns {:?} (possibly half-propagated)",
                                    o.node, v
                                ));
                            } else if refs.get(o.node).copied().flatten() != Some(v) && !self.lossy {
                                problems.push(format!(
                                    "after a panic in {}, observer o{i} on n{} returns {:?}, the fully propagated value is {:?}",
                                    if kind == "projection" { "a map_ref projection" } else { "an update handler" }, o.node, v, refs.get(o.node)
                                ));
                            }
                        }
                    }
                }
            }
        }
        // a further stabilise refuses to run
        let before = self.sh.events.borrow().len();
        let st = self.st().clone();
        let r = catch_unwind(AssertUnwindSafe(|| st.stabilise()));
        let ran: Vec<Event> = self.sh.events.borrow()[before..]
            .iter()
            .filter(|e| matches!(e, Event::Invoke { .. } | Event::FoldStep { .. } | Event::BindRun { .. } | Event::Handler { .. } | Event::Cutoff { .. }))
            .cloned()
            .collect();
        if r.is_ok() {
            problems.push(format!("a further stabilise after the escaped panic returned normally ({} user functions ran)", ran.len()));
        } else if !ran.is_empty() {
            problems.push(format!("a further stabilise after the escaped panic ran user functions before failing: {:?}", &ran[..ran.len().min(3)]));
        }
        // reads still do not expose values afterwards
        if !answer_allowed {
            let t = self.tables.borrow();
            for (i, _o) in self.observers.iter().enumerate() {
                if let Some(h) = t.observers[i].first() {
                    if let Ok(Ok(v)) = catch_unwind(AssertUnwindSafe(|| h.read())) {
                        problems.push(format!("after the refused second stabilise observer o{i} returns {:?}", v));
                    }
                }
            }
        }
        for p in problems {
            self.violate("C13", p);
        }
        kind
    }

    // ------------------------------------------------------------------------------------
    // teardown with drop accounting (C12)
    // ------------------------------------------------------------------------------------
    pub fn teardown(&mut self, rng: &mut crate::rng::Rng, state_first: bool, interleave: bool) {
        if self.st.is_none() {
            return;
        }
        // handles leaked by bind closures (Tm::Keep) are user handles too: they go first
        self.sh.tearing_down.set(true);
        self.sh.kept.borrow_mut().clear();
        // one variant: every handle goes (state last), then exactly one stabilise must release everything
        let one_stabilise = !state_first && !interleave && !self.poisoned;
        #[derive(Clone, Copy, Debug)]
        enum D {
            Handle(usize),
            Var(usize),
            Obs(usize),
            State,
        }
        let mut items: Vec<D> = vec![];
        for (i, h) in self.handles.iter().enumerate() {
            if h.is_some() {
                items.push(D::Handle(i));
            }
        }
        {
            let t = self.tables.borrow();
            for (i, v) in t.vars.iter().enumerate() {
                if v.is_some() {
                    items.push(D::Var(i));
                }
            }
            for (i, o) in t.observers.iter().enumerate() {
                for _ in 0..o.len() {
                    items.push(D::Obs(i));
                }
            }
        }
        rng.shuffle(&mut items);
        if state_first {
            items.insert(0, D::State);
        } else if one_stabilise {
            items.push(D::State);
        } else {
            let pos = rng.below(items.len() + 1);
            items.insert(pos, D::State);
        }
        let poisoned = self.poisoned;
        let mut state_gone = false;
        for it in items {
            if one_stabilise && matches!(it, D::State) {
                // all user handles are gone: one stabilise, then nothing of the graph may remain
                self.stats.one_stabilise_teardowns += 1;
                let st = self.st.clone().unwrap();
                if let Err(e) = catch_unwind(AssertUnwindSafe(|| st.stabilise())) {
                    self.violate("C12", format!("stabilise after dropping every handle panicked: {}", panic_text(&e)));
                    return;
                }
                drop(st);
                let mut left = vec![];
                for (i, p) in self.probes.iter().enumerate() {
                    if p.alive() {
                        left.push(format!("n{i}({})", self.model.nodes[i].kind.name()));
                    }
                }
                let reg_left: Vec<String> = self.sh.registry.borrow().iter().enumerate()
                    .filter(|(_, e)| e.weak.as_ref().map_or(false, |w| w.strong_count() > 0)).map(|(i, _)| format!("d{i}")).collect();
                left.extend(reg_left);
                if !left.is_empty() {
                    self.violate("C12", format!("every handle was dropped and one stabilise has run, but these nodes are still allocated: {}", left.join(",")));
                } else if self.sh.tokens.get() != 0 {
                    self.violate("C12", format!("every handle was dropped and one stabilise has run, but {} closures/values captured by the graph are still alive", self.sh.tokens.get()));
                }
            }
            let r = catch_unwind(AssertUnwindSafe(|| match it {
                D::Handle(i) => {
                    self.handles[i] = None;
                }
                D::Var(i) => {
                    let v = self.tables.borrow_mut().vars[i].take();
                    drop(v);
                }
                D::Obs(i) => {
                    let o = self.tables.borrow_mut().observers[i].pop();
                    drop(o);
                }
                D::State => {
                    self.tables.borrow_mut().state = None;
                    let s = self.st.take();
                    drop(s);
                }
            }));
            if let Err(e) = r {
                let prop = if poisoned { "C13" } else { "C12" };
                self.violate(prop, format!("dropping {:?} panicked: {}", it, panic_text(&e)));
                return;
            }
            if matches!(it, D::State) {
                state_gone = true;
            }
            {
                // keep the model's view of the observers in step with what was just dropped
                let t = self.tables.borrow();
                for (i, o) in self.observers.iter_mut().enumerate() {
                    o.clones = t.observers[i].len();
                    if o.clones == 0 {
                        o.state = ObsState::Gone;
                    }
                }
            }
            if interleave && !state_gone && !poisoned && rng.chance(1, 6) && self.unsafe_new_observers().is_empty() {
                if std::env::var("VH_TRACE").is_ok() {
                    eprintln!("=== teardown stabilise");
                    self.debug_unsafe();
                }
                let st = self.st.clone();
                if let Some(st) = st {
                    let r = catch_unwind(AssertUnwindSafe(|| st.stabilise()));
                    if let Err(e) = r {
                        self.violate("C12", format!("stabilise during teardown panicked: {}", panic_text(&e)));
                        return;
                    }
                }
            }
        }
        // everything the harness held is gone: every node and every captured value must be too
        let mut leaked = vec![];
        for (i, p) in self.probes.iter().enumerate() {
            self.stats.teardown_nodes_checked += 1;
            if p.alive() {
                leaked.push(format!("n{i}({})", self.model.nodes[i].kind.name()));
            }
        }
        {
            let reg = self.sh.registry.borrow();
            for (i, e) in reg.iter().enumerate() {
                self.stats.teardown_nodes_checked += 1;
                if e.weak.as_ref().map_or(false, |w| w.strong_count() > 0) {
                    leaked.push(format!("d{i}"));
                }
            }
        }
        self.stats.teardown_tokens_checked += 1;
        let tokens = self.sh.tokens.get();
        let prop = if poisoned { "C13" } else { "C12" };
        if !leaked.is_empty() && !poisoned {
            self.violate(prop, format!("after dropping every handle and the state, nodes are still allocated: {}", leaked.join(",")));
        }
        if tokens != 0 && !poisoned {
            self.violate(prop, format!("after dropping every handle and the state, {tokens} closures/values captured by the graph are still alive"));
        }
    }
}

/// nodes that run a user function the harness instruments
pub fn is_fn_node(kind: &Kind) -> bool {
    match kind {
        Kind::Fold(_, _, ins) => !ins.is_empty(),
        Kind::Map(..) | Kind::Map2(..) | Kind::MapN(..) | Kind::MapP(..) | Kind::MapCyclic(..) | Kind::Writer(..)
        | Kind::Enumerate(..) | Kind::MapWithOld(..) | Kind::MapWithOldPair(..) | Kind::MapHold(..) => true,
        _ => false,
    }
}

fn same_shape(a: Upd, b: Upd) -> bool {
    matches!((a, b), (Upd::Init(_), Upd::Init(_)) | (Upd::Changed(_), Upd::Changed(_)) | (Upd::Invalidated, Upd::Invalidated))
}

impl World {
    /// debugging aid: why does the sanitize rule accept or reject the fresh observers
    pub fn debug_unsafe(&self) {
        for (i, o) in self.observers.iter().enumerate() {
            eprintln!("  obs o{i} on n{} state {:?} clones {}", o.node, o.state, o.clones);
        }
        for (n, info) in self.model.nodes.iter().enumerate() {
            if let Kind::Adopted(d) = &info.kind {
                eprintln!("  n{n} adopted d{d} scope {:?} tm {:?} valid {}", self.model.dyns[*d].scope, self.model.dyns[*d].tm, self.model.dyn_valid(*d));
            }
        }
        eprintln!("  bind_force {:?}", self.model.bind_force);
        eprintln!("  unsafe -> {:?}", self.unsafe_new_observers());
    }
}
