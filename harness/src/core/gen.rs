//! History generator: picks the next action from the current state of the world.

use super::exec::*;
use super::model::*;
use super::spec::*;
use crate::rng::Rng;
use std::collections::{HashSet, VecDeque};
use std::rc::Rc;

#[derive(Clone, Debug)]
pub struct GenCfg {
    pub name: &'static str,
    pub max_nodes: usize,
    pub max_vars: usize,
    pub max_actions: usize,
    pub binds: bool,
    pub nested_binds: bool,
    pub adopt: bool,
    pub writers: bool,
    pub handler_scripts: bool,
    pub cutoffs: bool,
    pub lossy_cutoffs: bool,
    pub subscriptions: bool,
    pub drops: bool,
    pub until_stable: bool,
    /// probability (in 1/16) of starting with the sibling-chain shape
    pub sibling_shape: usize,
    /// probability (in 1/16) of starting with the map_ref re-observation shape
    pub mapref_shape: usize,
    /// probability (in 1/16) of starting with the kept-scope-node shape
    pub kept_shape: usize,
    /// bind whose every table entry is one pre-existing node, with a cutoff on the bind node
    pub same_rhs_shape: usize,
    /// weight multipliers
    pub w_create: usize,
    pub w_write: usize,
    pub w_observe: usize,
    pub w_unobserve: usize,
    pub w_stabilise: usize,
    pub w_subscribe: usize,
    pub w_cutoff: usize,
}

impl GenCfg {
    pub fn base(name: &'static str) -> GenCfg {
        GenCfg {
            name,
            max_nodes: 40,
            max_vars: 4,
            max_actions: 90,
            binds: true,
            nested_binds: true,
            adopt: true,
            writers: true,
            handler_scripts: true,
            cutoffs: true,
            lossy_cutoffs: false,
            subscriptions: true,
            drops: true,
            until_stable: true,
            sibling_shape: 3,
            mapref_shape: 2,
            kept_shape: 1,
            same_rhs_shape: 1,
            w_create: 10,
            w_write: 10,
            w_observe: 6,
            w_unobserve: 4,
            w_stabilise: 9,
            w_subscribe: 3,
            w_cutoff: 2,
        }
    }
}

pub struct Gen {
    pub cfg: GenCfg,
    pub plan: VecDeque<Action>,
    pub writer_targets: HashSet<VarId>,
    pub never_vars: HashSet<VarId>,
    /// every in-stabilise script leaves a variable at this value, so fixed points exist
    pub var_const: std::collections::HashMap<VarId, i64>,
    pub emitted: usize,
}

fn tm_contains_bind(tm: &Tm) -> bool {
    match tm {
        Tm::Bind(..) => true,
        Tm::Ref(_) | Tm::Const(_) | Tm::LhsConst(_) | Tm::Shared(_) | Tm::ScopedVar(_) => false,
        Tm::Map(_, a) | Tm::MapCap(_, a, _) => tm_contains_bind(a),
        Tm::Map2(_, a, b) | Tm::Scratch(a, b) | Tm::Keep(a, b) => tm_contains_bind(a) || tm_contains_bind(b),
        Tm::Fold(_, _, ts) => ts.iter().any(|t| tm_contains_bind(t)),
    }
}

fn f1(rng: &mut Rng) -> F1 {
    match rng.below(7) {
        0 => F1::Lin(1, 1),
        1 => F1::Lin(2, 1),
        2 => F1::Lin(rng.range(1, 4), rng.range(0, 4)),
        3 => F1::Half,
        4 => F1::Parity,
        5 => F1::Ident,
        _ => {
            if rng.chance(1, 3) {
                F1::Konst(rng.range(0, 4))
            } else {
                F1::Lin(1, rng.range(0, 4))
            }
        }
    }
}

fn f2(rng: &mut Rng) -> F2 {
    match rng.below(7) {
        0 | 1 => F2::Add,
        2 => F2::Min,
        3 => F2::Max,
        4 => F2::MulAdd(rng.range(1, 3)),
        5 => F2::First,
        _ => F2::Second,
    }
}

fn write_op(rng: &mut Rng) -> WriteOp {
    let c = rng.range(0, 4);
    match rng.below(8) {
        0 | 1 | 2 => WriteOp::Set(c),
        3 => WriteOp::UpdateAdd(rng.range(0, 2)),
        4 => WriteOp::ModifyMul(rng.range(1, 3)),
        5 => WriteOp::Replace(c),
        6 => WriteOp::ReplaceWithAdd(rng.range(0, 2)),
        _ => WriteOp::Set(c),
    }
}

impl Gen {
    pub fn new(cfg: GenCfg) -> Gen {
        Gen { cfg, plan: VecDeque::new(), writer_targets: HashSet::new(), never_vars: HashSet::new(), var_const: Default::default(), emitted: 0 }
    }

    fn alive(&self, w: &World, ty: Ty) -> Vec<NodeId> {
        (0..w.model.nodes.len())
            .filter(|n| w.model.nodes[*n].handle_alive && w.model.nodes[*n].ty == ty)
            .collect()
    }

    fn pick_node(&self, w: &World, rng: &mut Rng, ty: Ty) -> Option<NodeId> {
        let c = self.alive(w, ty);
        if c.is_empty() {
            return None;
        }
        // bias towards recent nodes so that graphs get deep
        if rng.chance(1, 2) {
            let lo = c.len().saturating_sub(6);
            Some(c[lo + rng.below(c.len() - lo)])
        } else {
            Some(*rng.pick(&c))
        }
    }

    fn pick_clean(&self, w: &World, rng: &mut Rng) -> Option<NodeId> {
        let c: Vec<NodeId> = self.alive(w, Ty::I).into_iter().filter(|n| !w.model.nodes[*n].tainted).collect();
        if c.is_empty() {
            None
        } else if rng.chance(1, 2) {
            let lo = c.len().saturating_sub(5);
            Some(c[lo + rng.below(c.len() - lo)])
        } else {
            Some(*rng.pick(&c))
        }
    }

    fn tm(&self, w: &World, rng: &mut Rng, depth: usize, level: usize, in_shared: bool) -> Rc<Tm> {
        let leaf = |rng: &mut Rng, me: &Gen| -> Rc<Tm> {
            match rng.below(8) {
                0 => Rc::new(Tm::Const(rng.range(0, 4))),
                1 => Rc::new(Tm::LhsConst(rng.below(level + 1))),
                2 if level >= 1 && !in_shared => {
                    // shared node of an enclosing bind (only exists for nested levels built with one)
                    Rc::new(Tm::LhsConst(level))
                }
                3 => Rc::new(Tm::ScopedVar(rng.range(0, 2))),
                _ => match me.pick_clean(w, rng) {
                    Some(n) => Rc::new(Tm::Ref(n)),
                    None => Rc::new(Tm::Const(rng.range(0, 4))),
                },
            }
        };
        if depth == 0 {
            return leaf(rng, self);
        }
        match rng.below(12) {
            0 | 1 => leaf(rng, self),
            2 | 3 => Rc::new(Tm::Map(f1(rng), self.tm(w, rng, depth - 1, level, in_shared))),
            4 | 5 | 6 => Rc::new(Tm::MapCap(f2(rng), self.tm(w, rng, depth - 1, level, in_shared), rng.below(level + 1))),
            7 => Rc::new(Tm::Map2(
                f2(rng),
                self.tm(w, rng, depth - 1, level, in_shared),
                self.tm(w, rng, depth - 1, level, in_shared),
            )),
            8 => {
                let (a, b) = (self.tm(w, rng, depth - 1, level, in_shared), self.tm(w, rng, depth - 1, level, in_shared));
                // dropped on the spot, or leaked through a side channel (and then adoptable)
                if rng.chance(1, 2) { Rc::new(Tm::Scratch(a, b)) } else { Rc::new(Tm::Keep(a, b)) }
            }
            9 => {
                let n = 1 + rng.below(3);
                Rc::new(Tm::Fold(f2(rng), rng.range(0, 3), (0..n).map(|_| self.tm(w, rng, depth - 1, level, in_shared)).collect()))
            }
            _ if self.cfg.nested_binds && level < 2 => {
                let lhs = self.tm(w, rng, depth - 1, level, in_shared);
                let shared = if rng.chance(1, 2) { Some(self.tm(w, rng, depth - 1, level, true)) } else { None };
                let n = 2 + rng.below(2);
                let has_shared = shared.is_some();
                let table = (0..n)
                    .map(|_| {
                        if has_shared && rng.chance(1, 2) {
                            Rc::new(Tm::MapCap(f2(rng), Rc::new(Tm::Shared(level + 1)), rng.below(level + 2)))
                        } else {
                            self.tm(w, rng, depth - 1, level + 1, in_shared)
                        }
                    })
                    .collect();
                Rc::new(Tm::Bind(lhs, shared, table))
            }
            _ => Rc::new(Tm::MapCap(f2(rng), self.tm(w, rng, depth - 1, level, in_shared), rng.below(level + 1))),
        }
    }

    fn script_for_writer(&mut self, w: &World, rng: &mut Rng) -> Vec<InOp> {
        let mut ops = vec![];
        let vars: Vec<VarId> = (0..w.model.vars.len())
            .filter(|v| w.model.vars[*v].handle_alive && !self.never_vars.contains(v))
            .collect();
        if !vars.is_empty() && rng.chance(3, 4) {
            let v = *rng.pick(&vars);
            self.writer_targets.insert(v);
            // the first deferred write takes a different path in the library than later ones, so
            // every operation gets to be first (the script ends on the per-variable constant anyway)
            // a write to another variable from inside the closure of update / modify / replace_with
            // (first thing in the script, so that both are the first deferred write of their variable,
            // or somewhere in the middle)
            let others: Vec<VarId> = vars.iter().copied().filter(|o| *o != v).collect();
            let mut second = None;
            let nested_at = if !others.is_empty() && rng.chance(1, 3) { Some(rng.below(2)) } else { None };
            let mut nested = |ops: &mut Vec<InOp>, rng: &mut Rng, targets: &mut HashSet<VarId>| {
                let v2 = *rng.pick(&others);
                targets.insert(v2);
                let outer = match rng.below(3) {
                    0 => WriteOp::UpdateAdd(rng.range(1, 2)),
                    1 => WriteOp::ModifyMul(rng.range(2, 3)),
                    _ => WriteOp::ReplaceWithAdd(rng.range(1, 2)),
                };
                ops.push(InOp::WriteNested(v, outer, v2, write_op(rng)));
                Some(v2)
            };
            if nested_at == Some(0) {
                second = nested(&mut ops, rng, &mut self.writer_targets);
            } else {
                ops.push(InOp::Write(v, match rng.below(4) {
                    0 => WriteOp::Set(rng.range(0, 4)),
                    1 => WriteOp::Replace(rng.range(0, 4)),
                    _ => write_op(rng),
                }));
            }
            let n_mid = rng.below(3);
            for _ in 0..n_mid {
                ops.push(InOp::Write(v, write_op(rng)));
            }
            if nested_at == Some(1) {
                second = nested(&mut ops, rng, &mut self.writer_targets);
            }
            let c = *self.var_const.entry(v).or_insert_with(|| rng.range(0, 4));
            ops.push(InOp::Write(v, if rng.chance(1, 2) { WriteOp::Set(c) } else { WriteOp::Replace(c) }));
            if let Some(v2) = second {
                let c2 = *self.var_const.entry(v2).or_insert_with(|| rng.range(0, 4));
                ops.push(InOp::Write(v2, WriteOp::Set(c2)));
            }
            if rng.chance(1, 2) {
                ops.push(InOp::ReadVar(v));
            }
            if rng.chance(1, 8) && vars.len() > 1 {
                // the last harness handle goes away inside the closure, with a write pending
                ops.push(InOp::DropVar(v));
            }
        }
        if !w.observers.is_empty() && rng.chance(1, 2) {
            ops.push(InOp::ReadObs(rng.below(w.observers.len())));
        }
        if let Some(v) = vars.first() {
            if rng.chance(1, 3) {
                ops.push(InOp::ReadVar(*v));
            }
        }
        ops
    }

    fn script_for_handler(&mut self, w: &World, rng: &mut Rng) -> Vec<InOp> {
        let mut ops = vec![InOp::ReadOwn];
        if !self.cfg.handler_scripts {
            return ops;
        }
        let vars: Vec<VarId> = (0..w.model.vars.len())
            .filter(|v| w.model.vars[*v].handle_alive && !self.never_vars.contains(v))
            .collect();
        if !vars.is_empty() && rng.chance(1, 5) {
            // handlers write constants only (to vars that cut off equal values), so that
            // stabilise-until-stable cannot diverge through them
            let v = *rng.pick(&vars);
            self.writer_targets.insert(v);
            let c = *self.var_const.entry(v).or_insert_with(|| rng.range(0, 4));
            // ... but on the way there any operation may come first: a handler's writes take
            // effect at once, in program order, after the round's deferred writes (the `get` and
            // the values `replace` returns say so)
            if rng.chance(1, 3) {
                ops.push(InOp::ReadVar(v));
            }
            for _ in 0..rng.below(3) {
                ops.push(InOp::Write(v, write_op(rng)));
            }
            ops.push(InOp::Write(v, if rng.chance(1, 2) { WriteOp::Set(c) } else { WriteOp::Replace(c) }));
        }
        if !w.observers.is_empty() && rng.chance(1, 3) {
            ops.push(InOp::ReadObs(rng.below(w.observers.len())));
        }
        match rng.below(24) {
            0 => ops.push(InOp::UnsubscribeSelf),
            1 => ops.push(InOp::DisallowOwn),
            2 => ops.push(InOp::SubscribeOwn),
            3 => ops.push(InOp::DropOwn),
            4 | 5 => {
                // also twice in one callback: the second call is on a token that is already gone
                ops.push(InOp::UnsubscribeOther);
                if rng.chance(1, 2) {
                    ops.push(InOp::UnsubscribeOther);
                }
            }
            _ => {}
        }
        if rng.chance(1, 5) {
            ops.push(InOp::GuardSibling);
        }
        ops
    }

    fn create(&mut self, w: &World, rng: &mut Rng) -> Option<Action> {
        let pick_i = |me: &Gen, rng: &mut Rng| me.pick_node(w, rng, Ty::I);
        let kinds = [
            ("map", 10),
            ("map2", 8),
            ("mapn", 3),
            ("fold", 4),
            ("zip", 3),
            ("mapref", 4),
            ("mapp", 2),
            ("mwo", 3),
            ("dep", 2),
            ("cyc", 1),
            ("bind", if self.cfg.binds { 9 } else { 0 }),
            ("writer", if self.cfg.writers { 2 } else { 0 }),
            ("const", 1),
            ("enum", 1),
            ("mwop", 2),
            ("hold", if self.cfg.writers { 1 } else { 0 }),
        ];
        let ws: Vec<usize> = kinds.iter().map(|k| k.1).collect();
        let which = kinds[rng.weighted(&ws)].0;
        let kind = match which {
            "map" => Kind::Map(f1(rng), pick_i(self, rng)?),
            "cyc" => Kind::MapCyclic(f1(rng), pick_i(self, rng)?),
            "enum" => Kind::Enumerate(f1(rng), pick_i(self, rng)?),
            "map2" => {
                let a = pick_i(self, rng)?;
                let b = if rng.chance(1, 6) { a } else { pick_i(self, rng)? };
                Kind::Map2(f2(rng), a, b)
            }
            "mapn" => {
                let n = 3 + rng.below(4);
                let mut ins = vec![];
                for _ in 0..n {
                    ins.push(pick_i(self, rng)?);
                }
                let wts = (0..n).map(|_| rng.range(0, 3)).collect();
                Kind::MapN(wts, ins, rng.chance(1, 2))
            }
            "fold" => {
                let n = if rng.chance(1, 12) { 0 } else { 1 + rng.below(4) };
                let mut ins = vec![];
                for _ in 0..n {
                    ins.push(pick_i(self, rng)?);
                }
                if n >= 2 && rng.chance(1, 3) {
                    ins[1] = ins[0];
                }
                Kind::Fold(f2(rng), rng.range(0, 3), ins)
            }
            "zip" => Kind::Zip(pick_i(self, rng)?, pick_i(self, rng)?),
            "mapref" => {
                // mostly a projection of a pair; sometimes the identity projection of an integer node,
                // preferably of another map_ref (stacked projections)
                if rng.chance(1, 4) {
                    let refs: Vec<NodeId> = self.alive(w, Ty::I).into_iter().filter(|n| matches!(w.model.nodes[*n].kind, Kind::MapRef(..))).collect();
                    let a = if !refs.is_empty() && rng.chance(2, 3) { *rng.pick(&refs) } else { pick_i(self, rng)? };
                    Kind::MapRef(0, a)
                } else {
                    Kind::MapRef(rng.below(2) as u8, self.pick_node(w, rng, Ty::P)?)
                }
            }
            "mapp" => Kind::MapP(f2(rng), self.pick_node(w, rng, Ty::P)?),
            "mwo" => Kind::MapWithOld(f1(rng), pick_i(self, rng)?, rng.chance(2, 3)),
            "mwop" => Kind::MapWithOldPair(f1(rng), pick_i(self, rng)?, rng.chance(2, 3)),
            "hold" => {
                let vars: Vec<VarId> = (0..w.model.vars.len())
                    .filter(|v| w.model.vars[*v].handle_alive && matches!(w.model.vars[*v].cur, Val::I(_)))
                    .collect();
                if vars.is_empty() {
                    return None;
                }
                Kind::MapHold(f1(rng), pick_i(self, rng)?, *rng.pick(&vars))
            }
            "dep" => {
                let a = pick_i(self, rng)?;
                let on = if rng.chance(1, 3) { self.pick_node(w, rng, Ty::P).unwrap_or(a) } else { pick_i(self, rng)? };
                Kind::DependOn(a, on)
            }
            "const" => {
                if rng.chance(1, 3) {
                    Kind::Const(pset(rng.range(0, 4)))
                } else {
                    Kind::Const(Val::I(rng.range(0, 4)))
                }
            }
            "writer" => {
                let a = pick_i(self, rng)?;
                let s = self.script_for_writer(w, rng);
                Kind::Writer(f1(rng), a, s)
            }
            "bind" => {
                let lhs = self.pick_clean(w, rng)?;
                let n = 2 + rng.below(2);
                let depth = 1 + rng.below(3);
                let mut table: Vec<Rc<Tm>> = (0..n).map(|_| self.tm(w, rng, depth, 0, false)).collect();
                // existing right-hand sides, alternating shallow and deep
                if rng.chance(1, 3) {
                    if let Some(x) = self.pick_clean(w, rng) {
                        table[0] = Rc::new(Tm::Ref(x));
                    }
                }
                if rng.chance(1, 6) {
                    // bind returning its own input
                    table[n - 1] = Rc::new(Tm::Ref(lhs));
                }
                if rng.chance(1, 6) {
                    // every run hands back the very same pre-existing node, and leaks a node it
                    // built on the way: the leaked nodes of earlier runs must still die
                    if let Some(x) = self.pick_clean(w, rng) {
                        for t in table.iter_mut() {
                            let side = if tm_contains_bind(t) { self.tm(w, rng, 1, 0, false) } else { t.clone() };
                            let side = if tm_contains_bind(&side) { Rc::new(Tm::MapCap(F2::Add, Rc::new(Tm::Const(1)), 0)) } else { side };
                            *t = Rc::new(Tm::Keep(side, Rc::new(Tm::Ref(x))));
                        }
                    }
                }
                Kind::Bind(lhs, table)
            }
            _ => return None,
        };
        Some(Action::Create(kind))
    }

    fn cutoff_kind(&self, rng: &mut Rng) -> CutoffKind {
        if self.cfg.lossy_cutoffs {
            *rng.pick(&[
                CutoffKind::Default,
                CutoffKind::Never,
                CutoffKind::Always,
                CutoffKind::FnEq,
                CutoffKind::LogEq,
                CutoffKind::LogMod2,
                CutoffKind::LogNever,
                CutoffKind::LogMod2,
            ])
        } else {
            *rng.pick(&[CutoffKind::Default, CutoffKind::Never, CutoffKind::FnEq, CutoffKind::LogEq, CutoffKind::LogNever])
        }
    }

    fn plan_stabilise(&mut self, w: &World, until: bool) {
        for o in w.unsafe_new_observers() {
            for _ in 0..w.observers[o].clones {
                self.plan.push_back(Action::DropObs(o));
            }
        }
        self.plan.push_back(if until { Action::StabiliseUntilStable } else { Action::Stabilise });
    }

    fn shape_sibling_chain(&mut self, w: &World, rng: &mut Rng) {
        // shared input a; chain a -> s0 -> .. -> sk linked first; bind on a.map(l) whose
        // right-hand side reads sk through a closure capturing the bind input
        let base = w.model.nodes.len();
        let vbase = w.model.vars.len();
        let len = 1 + rng.below(4);
        self.plan.push_back(Action::NewVar(Val::I(rng.range(0, 4))));
        let a = base;
        let mut prev = a;
        for _ in 0..len {
            self.plan.push_back(Action::Create(Kind::Map(F1::Lin(1, 1), prev)));
            prev += 1;
        }
        let sk = prev;
        let chain_first = rng.chance(2, 3);
        let mut next = sk + 1;
        if chain_first {
            self.plan.push_back(Action::Observe(sk));
            self.plan.push_back(Action::Stabilise);
        }
        self.plan.push_back(Action::Create(Kind::Map(if rng.chance(1, 2) { F1::Lin(2, 0) } else { F1::Ident }, a)));
        let l = next;
        next += 1;
        let t0 = Rc::new(Tm::MapCap(F2::Add, Rc::new(Tm::Ref(sk)), 0));
        let t1 = if rng.chance(1, 2) {
            Rc::new(Tm::MapCap(F2::MulAdd(2), Rc::new(Tm::Map(F1::Lin(1, 2), Rc::new(Tm::Ref(sk)))), 0))
        } else {
            Rc::new(Tm::Map2(F2::Add, Rc::new(Tm::LhsConst(0)), Rc::new(Tm::Ref(sk))))
        };
        self.plan.push_back(Action::Create(Kind::Bind(l, vec![t0.clone(), t1, t0])));
        let b = next;
        next += 1;
        self.plan.push_back(Action::Create(Kind::Map(F1::Lin(1, 3), b)));
        let d = next;
        self.plan.push_back(Action::Observe(d));
        if rng.chance(1, 2) {
            self.plan.push_back(Action::Subscribe(w.observers.len() + if chain_first { 1 } else { 0 }, vec![InOp::ReadOwn]));
        }
        if !chain_first {
            self.plan.push_back(Action::Observe(sk));
        }
        self.plan.push_back(Action::Stabilise);
        for _ in 0..(2 + rng.below(3)) {
            self.plan.push_back(Action::Write(vbase, WriteOp::UpdateAdd(rng.range(1, 3))));
            self.plan.push_back(Action::Stabilise);
        }
    }

    /// a node built by a bind closure is adopted and observed on its own; the bind goes
    /// unobserved, its input grows taller (or changes), and then the bind comes back in a round in
    /// which the kept node's own input changes too
    fn shape_kept_scope_node(&mut self, w: &World, rng: &mut Rng) {
        let base = w.model.nodes.len();
        let vbase = w.model.vars.len();
        let obase = w.observers.len();
        let dbase = w.sh.registry.borrow().len();
        self.plan.push_back(Action::NewVar(Val::I(0))); // sel: node base
        self.plan.push_back(Action::NewVar(Val::I(rng.range(0, 4)))); // b: node base+1
        self.plan.push_back(Action::NewVar(Val::I(rng.range(0, 4)))); // k: node base+2
        let (sel, b, k) = (base, base + 1, base + 2);
        self.plan.push_back(Action::Create(Kind::Map(F1::Ident, b))); // shallow: base+3
        let shallow = base + 3;
        let mut deep = shallow;
        let mut next = base + 4;
        // variant: the deep alternative has the *same value* as the shallow one (all identity maps,
        // mostly exactly one level taller): switching to it makes the bind's input taller without
        // changing it, so the bind's closure does not re-run when the bind is observed again
        let same_value = rng.chance(1, 2);
        let len = if same_value { 2 + rng.below(3) / 2 + rng.below(2) * rng.below(2) } else { 2 + rng.below(5) };
        let mut prev = b;
        for i in 0..len {
            self.plan.push_back(Action::Create(Kind::Map(if i == 0 && !same_value { F1::Lin(1, 2) } else { F1::Ident }, prev)));
            prev = next;
            deep = next;
            next += 1;
        }
        // the bind's input: switches between a shallow and a deep node
        self.plan.push_back(Action::Create(Kind::Bind(sel, vec![Rc::new(Tm::Ref(shallow)), Rc::new(Tm::Ref(deep))])));
        let input = next;
        next += 1;
        // an earlier dependant of the input: the bind's lhs-change node is then not the parent that
        // gets recomputed directly when the input changes
        self.plan.push_back(Action::Create(Kind::Map(F1::Lin(1, 1), input)));
        let sibling = next;
        next += 1;
        self.plan.push_back(Action::Create(Kind::Bind(
            input,
            vec![Rc::new(Tm::MapCap(F2::Add, Rc::new(Tm::Ref(k)), 0)), Rc::new(Tm::MapCap(F2::MulAdd(2), Rc::new(Tm::Ref(k)), 0))],
        )));
        let bind = next;
        self.plan.push_back(Action::Observe(if rng.chance(1, 2) { sibling } else { input })); // obase
        self.plan.push_back(Action::Observe(bind)); // obase+1
        self.plan.push_back(Action::Stabilise);
        self.plan.push_back(Action::Adopt(dbase)); // node bind+1
        self.plan.push_back(Action::Observe(bind + 1)); // obase+2
        self.plan.push_back(Action::Stabilise);
        if same_value && rng.chance(1, 2) {
            // variant (defect #24): a chain on the kept node stays observed; the bind goes
            // unobserved and its input grows taller; then a *new* node over (chain, bind, z), chain
            // first, is observed: linking the bind lifts the kept node, the chain and, through
            // the chain, the new node while it is still being linked
            self.plan.push_back(Action::NewVar(Val::I(rng.range(0, 4)))); // q: node bind+2, var vbase+3
            self.plan.push_back(Action::Create(Kind::Map(F1::Ident, bind + 1))); // bind+3
            let mut top = bind + 3;
            let mut n = bind + 4;
            for _ in 0..rng.below(3) {
                self.plan.push_back(Action::Create(Kind::Map(F1::Lin(1, 1), top)));
                top = n;
                n += 1;
            }
            self.plan.push_back(Action::Create(Kind::Map2(F2::Add, top, bind + 2)));
            let c1 = n;
            n += 1;
            self.plan.push_back(Action::Observe(c1)); // obase+3
            self.plan.push_back(Action::Stabilise);
            self.plan.push_back(Action::DropObs(obase + 1));
            if rng.chance(1, 2) {
                self.plan.push_back(Action::DropObs(obase + 2));
            }
            self.plan.push_back(Action::Stabilise);
            self.plan.push_back(Action::Write(vbase, WriteOp::Set(1)));
            self.plan.push_back(Action::Stabilise);
            self.plan.push_back(Action::NewVar(Val::I(rng.range(0, 4)))); // z: node n, var vbase+4
            let z = n;
            n += 1;
            let inputs = match rng.below(3) {
                0 => vec![c1, bind, z],
                1 => vec![c1, z, bind],
                _ => vec![bind, c1, z],
            };
            self.plan.push_back(Action::Create(Kind::MapN(vec![1, 1, 1], inputs, rng.chance(1, 2))));
            self.plan.push_back(Action::Observe(n)); // obase+4
            self.plan.push_back(Action::Stabilise);
            self.plan.push_back(Action::Write(vbase + 4, WriteOp::UpdateAdd(1)));
            self.plan.push_back(Action::Write(vbase + 3, WriteOp::UpdateAdd(1)));
            self.plan.push_back(Action::Stabilise);
            self.plan.push_back(Action::Write(vbase + 1, WriteOp::UpdateAdd(1)));
            self.plan.push_back(Action::Write(vbase + 2, WriteOp::UpdateAdd(1)));
            self.plan.push_back(Action::Stabilise);
            return;
        }
        self.plan.push_back(Action::DropObs(obase + 1));
        self.plan.push_back(Action::Stabilise);
        self.plan.push_back(Action::Write(vbase, WriteOp::Set(1)));
        if rng.chance(1, 2) && !same_value {
            self.plan.push_back(Action::Write(vbase + 1, WriteOp::UpdateAdd(1)));
        }
        self.plan.push_back(Action::Stabilise);
        self.plan.push_back(Action::Observe(bind));
        if same_value {
            // observed again with an unchanged (but taller) input; then the input and the kept
            // node's other input change in one round
            self.plan.push_back(Action::Stabilise);
            self.plan.push_back(Action::Write(vbase + 1, WriteOp::UpdateAdd(1)));
        }
        self.plan.push_back(Action::Write(vbase + 2, WriteOp::UpdateAdd(1)));
        self.plan.push_back(Action::Stabilise);
        self.plan.push_back(Action::Write(vbase, WriteOp::Set(0)));
        self.plan.push_back(Action::Stabilise);
    }

    /// a bind whose closure hands back the same pre-existing node whatever its input, with a
    /// cutoff of its own on the bind node and a function node downstream: when the bind's input
    /// changes the closure re-runs, the bind node is recomputed with an unchanged value, and what
    /// the dependant does is decided by the bind node's cutoff alone
    fn shape_bind_same_rhs(&mut self, w: &World, rng: &mut Rng) {
        let base = w.model.nodes.len();
        let vbase = w.model.vars.len();
        self.plan.push_back(Action::NewVar(Val::I(rng.range(0, 4)))); // a: node base
        self.plan.push_back(Action::NewVar(Val::I(rng.range(0, 4)))); // x: node base+1
        self.plan.push_back(Action::Create(Kind::Map(f1(rng), base + 1))); // m: base+2
        let m = base + 2;
        let table: Vec<Rc<Tm>> = (0..2 + rng.below(2)).map(|_| Rc::new(Tm::Ref(m))).collect();
        self.plan.push_back(Action::Create(Kind::Bind(base, table))); // b: base+3
        let b = base + 3;
        let k = *rng.pick(&[CutoffKind::Never, CutoffKind::LogNever, CutoffKind::LogEq, CutoffKind::Never, CutoffKind::Default]);
        self.plan.push_back(Action::SetCutoff(b, k));
        self.plan.push_back(Action::Create(Kind::Map(f1(rng), b))); // d: base+4
        self.plan.push_back(Action::Observe(base + 4));
        if rng.chance(1, 3) {
            self.plan.push_back(Action::Observe(m));
        }
        self.plan.push_back(Action::Stabilise);
        for _ in 0..2 + rng.below(3) {
            match rng.below(4) {
                0 => self.plan.push_back(Action::Write(vbase + 1, WriteOp::UpdateAdd(1))),
                1 => {
                    self.plan.push_back(Action::Write(vbase, WriteOp::UpdateAdd(1)));
                    self.plan.push_back(Action::Write(vbase + 1, WriteOp::UpdateAdd(rng.range(0, 1))));
                }
                _ => self.plan.push_back(Action::Write(vbase, WriteOp::UpdateAdd(1 + rng.range(0, 2)))),
            }
            self.plan.push_back(Action::Stabilise);
        }
    }

    fn shape_mapref(&mut self, w: &World, rng: &mut Rng) {
        let base = w.model.nodes.len();
        let vbase = w.model.vars.len();
        let obase = w.observers.len();
        self.plan.push_back(Action::NewVar(pset(rng.range(0, 4))));
        let v = base;
        let keep = rng.chance(3, 4);
        let proj = rng.below(2) as u8;
        self.plan.push_back(Action::Create(Kind::MapRef(proj, v)));
        // optionally a projection of the projection
        let stacked = rng.below(3);
        for k in 0..stacked {
            self.plan.push_back(Action::Create(Kind::MapRef(0, v + 1 + k)));
        }
        let top = v + 2 + stacked;
        self.plan.push_back(Action::Create(Kind::Map(F1::Lin(1, 1), top - 1)));
        let mut o = obase;
        if keep {
            self.plan.push_back(Action::Observe(v));
            o += 1;
        }
        self.plan.push_back(Action::Observe(top));
        self.plan.push_back(Action::Stabilise);
        // a write that leaves the projection alone
        let (same, diff) = if proj == 0 {
            (WriteOp::ModifyMul(2), WriteOp::UpdateAdd(1))
        } else {
            (WriteOp::UpdateAdd(1), WriteOp::ReplaceWithAdd(1))
        };
        self.plan.push_back(Action::Write(vbase, same.clone()));
        self.plan.push_back(Action::Stabilise);
        self.plan.push_back(Action::DropObs(o));
        self.plan.push_back(Action::Stabilise);
        self.plan.push_back(Action::Write(vbase, diff));
        if rng.chance(1, 2) {
            self.plan.push_back(Action::Stabilise);
        }
        self.plan.push_back(Action::Observe(top));
        self.plan.push_back(Action::Stabilise);
        self.plan.push_back(Action::Write(vbase, same));
        self.plan.push_back(Action::Stabilise);
    }

    pub fn next(&mut self, w: &World, rng: &mut Rng) -> Option<Action> {
        if self.emitted >= self.cfg.max_actions {
            return None;
        }
        self.emitted += 1;
        if let Some(a) = self.plan.pop_front() {
            return Some(a);
        }
        if self.emitted == 1 {
            if rng.below(16) < self.cfg.sibling_shape {
                self.shape_sibling_chain(w, rng);
                return self.plan.pop_front();
            }
            if rng.below(16) < self.cfg.mapref_shape {
                self.shape_mapref(w, rng);
                return self.plan.pop_front();
            }
            if rng.below(16) < self.cfg.kept_shape {
                self.shape_kept_scope_node(w, rng);
                return self.plan.pop_front();
            }
            if self.cfg.binds && self.cfg.cutoffs && rng.below(16) < self.cfg.same_rhs_shape {
                self.shape_bind_same_rhs(w, rng);
                return self.plan.pop_front();
            }
        }
        if w.model.vars.len() < 2 {
            return Some(Action::NewVar(if rng.chance(1, 3) { pset(rng.range(0, 4)) } else { Val::I(rng.range(0, 4)) }));
        }
        for _ in 0..40 {
            let c = &self.cfg;
            let live_obs: Vec<usize> = (0..w.observers.len()).filter(|o| w.observers[*o].clones > 0).collect();
            let weights = [
                if w.model.vars.len() < c.max_vars { 1 } else { 0 },
                if w.model.nodes.len() < c.max_nodes { c.w_create } else { 0 },
                c.w_write,
                if c.cutoffs { c.w_cutoff } else { 0 },
                c.w_observe,
                if live_obs.is_empty() { 0 } else { c.w_unobserve },
                if c.subscriptions && !live_obs.is_empty() { c.w_subscribe } else { 0 },
                if c.subscriptions { 1 } else { 0 },
                if c.adopt { 2 } else { 0 },
                if c.drops { 1 } else { 0 },
                c.w_stabilise,
                1,
            ];
            match rng.weighted(&weights) {
                0 => return Some(Action::NewVar(if rng.chance(1, 3) { pset(rng.range(0, 4)) } else { Val::I(rng.range(0, 4)) })),
                1 => {
                    if let Some(a) = self.create(w, rng) {
                        return Some(a);
                    }
                }
                2 => {
                    let vars: Vec<VarId> = (0..w.model.vars.len()).filter(|v| w.model.vars[*v].handle_alive).collect();
                    if let Some(v) = vars.get(rng.below(vars.len().max(1))) {
                        // frequently restore an old value / write an equal one
                        let op = if rng.chance(1, 5) { WriteOp::Set(w.model.vars[*v].cur.i()) } else { write_op(rng) };
                        return Some(Action::Write(*v, op));
                    }
                }
                3 => {
                    let all: Vec<NodeId> = (0..w.model.nodes.len()).filter(|n| w.model.nodes[*n].handle_alive).collect();
                    if let Some(n) = all.get(rng.below(all.len().max(1))) {
                        let info = &w.model.nodes[*n];
                        // depend_on installs its own cutoff; bind results are judged through values only
                        if matches!(info.kind, Kind::DependOn(..) | Kind::Adopted(..)) {
                            continue;
                        }
                        let k = self.cutoff_kind(rng);
                        if let Kind::Var(v) = &info.kind {
                            if matches!(k, CutoffKind::Never | CutoffKind::LogNever) {
                                if self.writer_targets.contains(v) {
                                    continue;
                                }
                                self.never_vars.insert(*v);
                            }
                        }
                        if !self.cfg.lossy_cutoffs
                            && matches!(k, CutoffKind::Never | CutoffKind::LogNever)
                            && matches!(info.kind, Kind::Zip(..) | Kind::MapRef(..) | Kind::Const(..))
                        {
                            continue;
                        }
                        return Some(Action::SetCutoff(*n, k));
                    }
                }
                4 => {
                    let all: Vec<NodeId> = (0..w.model.nodes.len()).filter(|n| w.model.nodes[*n].handle_alive).collect();
                    if all.is_empty() {
                        continue;
                    }
                    // prefer re-observing something that was observed before, and sinks
                    let n = if rng.chance(1, 3) && !w.observers.is_empty() {
                        let o = &w.observers[rng.below(w.observers.len())];
                        if w.model.nodes[o.node].handle_alive { o.node } else { *rng.pick(&all) }
                    } else if rng.chance(1, 2) {
                        let lo = all.len().saturating_sub(5);
                        all[lo + rng.below(all.len() - lo)]
                    } else {
                        *rng.pick(&all)
                    };
                    return Some(Action::Observe(n));
                }
                5 => {
                    let o = *rng.pick(&live_obs);
                    return Some(match rng.below(6) {
                        0 => Action::CloneObs(o),
                        1 => Action::Disallow(o),
                        _ => Action::DropObs(o),
                    });
                }
                6 => {
                    let o = *rng.pick(&live_obs);
                    let s = self.script_for_handler(w, rng);
                    return Some(Action::Subscribe(o, s));
                }
                7 => {
                    let subs: Vec<usize> = (0..w.subs.len())
                        .filter(|s| w.subs[*s].as_ref().map_or(false, |r| w.observers[r.obs].clones > 0))
                        .collect();
                    if let Some(s) = subs.get(rng.below(subs.len().max(1))) {
                        let rec = w.subs[*s].as_ref().unwrap();
                        if rng.chance(1, 3) && w.observers[rec.obs].state != ObsState::Created {
                            return Some(Action::StateUnsubscribe(*s));
                        }
                        return Some(Action::Unsubscribe(*s));
                    }
                }
                8 => {
                    let reg = w.sh.registry.borrow();
                    let cands: Vec<DynKey> = (0..reg.len().min(w.model.dyns.len()))
                        .filter(|d| {
                            !reg[*d].scratch
                                && reg[*d].weak.as_ref().map_or(false, |x| x.strong_count() > 0)
                                // no nested bind inside: while the defining bind is unobserved, a nested
                                // bind re-running could pull further nodes of that scope in (K1 again)
                                && !tm_contains_bind(&reg[*d].tm)
                                && !w.model.nodes.iter().any(|n| n.kind == Kind::Adopted(*d))
                        })
                        .collect();
                    if cands.is_empty() {
                        continue;
                    }
                    // mostly nodes of generations currently in force
                    let valid: Vec<DynKey> = cands.iter().copied().filter(|d| w.model.dyn_valid(*d)).collect();
                    let d = if !valid.is_empty() && rng.chance(5, 6) { *rng.pick(&valid) } else { *rng.pick(&cands) };
                    return Some(Action::Adopt(d));
                }
                9 => {
                    if rng.chance(1, 4) {
                        let vars: Vec<VarId> = (0..w.model.vars.len()).filter(|v| w.model.vars[*v].handle_alive).collect();
                        if vars.len() > 1 {
                            return Some(Action::DropVar(*rng.pick(&vars)));
                        }
                    } else {
                        let all: Vec<NodeId> = (0..w.model.nodes.len()).filter(|n| w.model.nodes[*n].handle_alive).collect();
                        if all.len() > 3 {
                            return Some(Action::DropHandle(*rng.pick(&all)));
                        }
                    }
                }
                11 => {
                    if rng.chance(1, 3) {
                        return Some(Action::Dot);
                    }
                    if rng.chance(1, 3) {
                        // grow or shrink the limit, with or without writes pending
                        return Some(Action::SetMaxHeight(*rng.pick(&[1024usize, 1100, 2048, 1500])));
                    }
                    let all: Vec<NodeId> = (0..w.model.nodes.len()).filter(|n| w.model.nodes[*n].handle_alive).collect();
                    if !all.is_empty() && self.cfg.subscriptions {
                        return Some(Action::OnUpdate(*rng.pick(&all)));
                    }
                }
                _ => {
                    let until = self.cfg.until_stable && rng.chance(1, 6);
                    self.plan_stabilise(w, until);
                    return self.plan.pop_front();
                }
            }
        }
        self.plan_stabilise(w, false);
        self.plan.pop_front()
    }
}
