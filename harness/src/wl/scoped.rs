//! Variables created inside a bind closure (`var_current_scope`) that escape through a side
//! channel: writes to the variable of the current run propagate, writes to a variable of an
//! earlier run (whose watch node has been invalidated, but may still be observed) are harmless.
//! Touches C04 (no panic), C08 (a write is seen by the next stabilise), C03 (old nodes are dead),
//! C11 (audit after every stabilise).

use crate::json::J;
use crate::rng::{mix, Rng};
use incremental::{Incr, IncrState, Observer, ObserverError, Var};
use std::cell::{Cell, RefCell};
use std::panic::{catch_unwind, AssertUnwindSafe};
use std::rc::Rc;

pub struct Outcome {
    pub nontrivial: bool,
    pub violation: Option<(String, String)>,
    pub actions: Vec<String>,
    pub reads: u64,
}

#[derive(Clone, Copy, PartialEq, Debug)]
enum What {
    Watch,
    Derived,
}

struct Kept {
    gen: u64,
    what: What,
    obs: Observer<i64>,
}

struct Run {
    gen: u64,
    var: Option<Var<i64>>,
    watch: Incr<i64>,
    derived: Incr<i64>,
    /// value the variable holds as far as the next stabilise is concerned
    val: i64,
}

pub fn run_history(seed: u64) -> Outcome {
    let mut actions = vec![];
    let mut reads = 0u64;
    let mut nontrivial = false;
    let r = catch_unwind(AssertUnwindSafe(|| inner(seed, &mut actions, &mut reads, &mut nontrivial)));
    let violation = match r {
        Ok(Ok(())) => None,
        Ok(Err(m)) => Some(m),
        Err(e) => Some(("C04".into(), format!("panic: {}", crate::panic_message(e)))),
    };
    Outcome { nontrivial, violation, actions, reads }
}

#[allow(unused_variables)]
fn audit(st: &IncrState, when: &str) -> Result<(), (String, String)> {
    #[cfg(cormacrelf_incremental_rs_verif)]
    {
        let a = st.verif_audit();
        if !a.is_empty() {
            return Err(("C11".into(), format!("audit {when}: {}", a.join(" | "))));
        }
    }
    Ok(())
}

fn trace(actions: &[String]) {
    if std::env::var_os("VH_TRACE").is_some() {
        eprintln!("{}", actions.last().unwrap());
    }
}

fn inner(seed: u64, actions: &mut Vec<String>, reads: &mut u64, nontrivial: &mut bool) -> Result<(), (String, String)> {
    let mut rng = Rng::new(seed ^ 0x5c0bed);
    let st = IncrState::new();
    let outer = st.var(0i64);
    let base = st.var(1i64);
    let shape = rng.below(4);
    let runs: Rc<RefCell<Vec<Run>>> = Rc::new(RefCell::new(vec![]));
    let gen_ctr = Rc::new(Cell::new(0u64));
    let b: Incr<i64> = {
        let (runs, gen_ctr, basew) = (runs.clone(), gen_ctr.clone(), base.watch());
        outer.binds(move |ws, &o| {
            let st = ws.upgrade().unwrap();
            let gen = gen_ctr.get() + 1;
            gen_ctr.set(gen);
            let v = st.var_current_scope(o * 10);
            let w = v.watch();
            let derived = match shape {
                0 => w.map(|x| x + 1),
                1 => w.map2(&basew, |a, b| a + b + 1),
                2 => {
                    let bw = basew.clone();
                    w.bind(move |&x| bw.map(move |b| b * 0 + x + 1))
                }
                _ => w.map(|x| x + 1).map(|x| x * 1),
            };
            runs.borrow_mut().push(Run { gen, var: Some(v), watch: w, derived: derived.clone(), val: o * 10 });
            derived
        })
    };
    let mut b_obs: Option<Observer<i64>> = Some(b.observe());
    let mut kept: Vec<Kept> = vec![];
    let mut outer_val = 0i64;
    let mut outer_seen_by_bind = 0i64;
    let mut base_val = 1i64;
    let mut cur_gen = 0u64;
    let derived_of = |shape: usize, val: i64, base: i64| -> i64 {
        match shape {
            1 => val + base + 1,
            _ => val + 1,
        }
    };
    let n_actions = 15 + rng.below(35);
    let mut traced = 0usize;
    // the bind was observed when the last stabilise ran, so it is necessary right now (K1: a node
    // made by its closure may only be given a new observer while that holds)
    let mut b_linked = false;
    for step in 0..n_actions {
        match if step == 0 { 9 } else { rng.below(10) } {
            0 | 1 => {
                outer_val = rng.range(0, 3);
                outer.set(outer_val);
                actions.push(format!("outer={outer_val}"));
            }
            2 | 3 | 4 => {
                // write to an escaped variable of any run
                let mut rs = runs.borrow_mut();
                if !rs.is_empty() {
                    let i = if rng.chance(1, 2) { rs.len() - 1 } else { rng.below(rs.len()) };
                    let v = rng.range(0, 40);
                    let gen = rs[i].gen;
                    if let Some(var) = &rs[i].var {
                        var.set(v);
                        rs[i].val = v;
                        actions.push(format!("escaped_var(gen {gen}).set({v}){}", if gen != cur_gen { " [run is over]" } else { "" }));
                        if gen != cur_gen {
                            *nontrivial = true;
                        }
                    }
                }
            }
            5 => {
                base_val = rng.range(0, 9);
                base.set(base_val);
                actions.push(format!("base={base_val}"));
            }
            6 => {
                // observe a node of some run on its own (never the nested-bind shape's result,
                // and only while the defining bind is observed: see K1)
                let rs = runs.borrow();
                if !rs.is_empty() && b_linked && kept.len() < 6 {
                    let i = if rng.chance(2, 3) { rs.len() - 1 } else { rng.below(rs.len()) };
                    // nodes of the latest run are only valid to observe if the bind will not re-run
                    // before the observer is linked; an invalid node may be observed at any time
                    let what = if shape != 2 && rng.chance(1, 2) { What::Derived } else { What::Watch };
                    let node = if what == What::Watch { rs[i].watch.clone() } else { rs[i].derived.clone() };
                    actions.push(format!("observe {what:?} of gen {}", rs[i].gen));
                    kept.push(Kept { gen: rs[i].gen, what, obs: node.observe() });
                }
            }
            7 => {
                if !kept.is_empty() && rng.chance(1, 2) {
                    let i = rng.below(kept.len());
                    let k = kept.remove(i);
                    actions.push(format!("drop observer of {:?} of gen {}", k.what, k.gen));
                } else {
                    let mut rs = runs.borrow_mut();
                    if rs.len() > 1 {
                        let i = rng.below(rs.len() - 1);
                        if rs[i].var.take().is_some() {
                            actions.push(format!("drop escaped_var(gen {})", rs[i].gen));
                        }
                    }
                }
            }
            8 => {
                if rng.chance(1, 2) {
                    if b_obs.is_some() {
                        b_obs = None;
                        actions.push("unobserve bind".into());
                    } else {
                        b_obs = Some(b.observe());
                        actions.push("observe bind".into());
                    }
                }
            }
            _ => {
                if std::env::var_os("VH_TRACE").is_some() {
                    eprintln!("{:?}\n-- stabilise", &actions[traced..]);
                    traced = actions.len();
                }
                st.stabilise();
                b_linked = b_obs.is_some();
                if b_obs.is_some() {
                    let expect_rerun = cur_gen == 0 || outer_val != outer_seen_by_bind;
                    let g = gen_ctr.get();
                    if expect_rerun != (g != cur_gen) || g > cur_gen + 1 {
                        return Err(("C03".into(), format!("bind input changed={expect_rerun} but its closure ran {} time(s) in this stabilise", g - cur_gen)));
                    }
                    cur_gen = g;
                    outer_seen_by_bind = outer_val;
                }
                actions.push(format!("stabilise (run {cur_gen})"));
                audit(&st, "after stabilise")?;
                let rs = runs.borrow();
                let cur = rs.last().unwrap();
                if let Some(o) = &b_obs {
                    *reads += 1;
                    let want = derived_of(shape, cur.val, base_val);
                    let got = o.try_get_value();
                    if got != Ok(want) {
                        return Err(("C08".into(), format!(
                            "the bind's observer reads {:?}; the variable created by its current run holds {}, so the reference value is {want}",
                            got, cur.val
                        )));
                    }
                }
                for k in &kept {
                    *reads += 1;
                    let got = k.obs.try_get_value();
                    if k.gen == cur_gen {
                        let r = rs.iter().find(|r| r.gen == k.gen).unwrap();
                        let want = if k.what == What::Watch { r.val } else { derived_of(shape, r.val, base_val) };
                        if got != Ok(want) {
                            return Err(("C08".into(), format!("observer of the {:?} node of the current run reads {:?}, expected {want}", k.what, got)));
                        }
                    } else if got != Err(ObserverError::ObservingInvalid) {
                        return Err(("C03".into(), format!(
                            "observer of the {:?} node of run {} reads {:?} although that run was replaced by run {cur_gen}",
                            k.what, k.gen, got
                        )));
                    }
                }
            }
        }
    }
    // teardown in a random order
    let order = rng.below(3);
    let t = catch_unwind(AssertUnwindSafe(move || {
        match order {
            0 => {
                drop(kept);
                drop(b_obs);
                st.stabilise();
                runs.borrow_mut().clear();
                drop(b);
                st.stabilise();
            }
            1 => {
                runs.borrow_mut().clear();
                st.stabilise();
                drop(b_obs);
                drop(kept);
                drop(b);
                st.stabilise();
            }
            _ => {
                drop(st);
                drop(b);
                runs.borrow_mut().clear();
                drop(kept);
                drop(b_obs);
            }
        }
        drop(outer);
        drop(base);
    }));
    if let Err(e) = t {
        return Err(("C12".into(), format!("teardown panicked: {}", crate::panic_message(e))));
    }
    Ok(())
}

pub fn run(seed: u64, shard: u64, count: u64) -> J {
    let (mut nontrivial, mut reads) = (0u64, 0u64);
    let mut violations = vec![];
    let mut samples = vec![];
    for i in 0..count {
        let hseed = mix(mix(seed, shard), i);
        if std::env::var_os("VH_LOUD").is_some() {
            eprintln!("scoped history {hseed}");
        }
        let o = run_history(hseed);
        reads += o.reads;
        if o.nontrivial {
            nontrivial += 1;
        }
        if samples.is_empty() && o.nontrivial {
            samples.push(J::Arr(o.actions.iter().map(|a| J::s(a.clone())).collect()));
        }
        if let Some((prop, m)) = o.violation {
            if violations.len() < 10 {
                violations.push(J::obj(vec![
                    ("property", J::s(prop)),
                    ("message", J::s(format!("escaped scoped variable workload: {m}; history: {:?}", o.actions))),
                    ("argv", J::Arr(vec![J::s("scoped-one"), J::s(hseed.to_string())])),
                ]));
            }
        }
    }
    J::obj(vec![
        ("workload", J::s("scoped")),
        ("evaluations", J::Int(count as i64)),
        ("nontrivial", J::Int(nontrivial as i64)),
        ("stats", J::obj(vec![("observer_reads_checked", J::Int(reads as i64))])),
        ("violations", J::Arr(violations)),
        ("samples", J::Arr(samples)),
    ])
}
