//! C20: weak_memoize_fn returns one shared node per live key, whatever the calling scope.

use crate::json::J;
use crate::rng::{mix, Rng};
use incremental::{Incr, IncrState, Observer, ObserverError, Var};
use std::cell::{Cell, RefCell};
use std::panic::{catch_unwind, AssertUnwindSafe};
use std::rc::Rc;

const KEYS: i64 = 3;

struct BindRec {
    sel: Var<i64>,
    obs: Observer<i64>,
    #[allow(dead_code)]
    node: Incr<i64>,
    nested: bool,
    /// key selected at the last stabilise (held by the bind as its right-hand side)
    holding: Option<i64>,
}

pub struct Outcome {
    pub nontrivial: bool,
    pub violation: Option<String>,
    pub actions: Vec<String>,
    pub calls_checked: u64,
}

pub fn run_history(seed: u64) -> Outcome {
    let mut actions = vec![];
    let mut calls_checked = 0u64;
    let mut nontrivial = false;
    let r = catch_unwind(AssertUnwindSafe(|| inner(seed, &mut actions, &mut calls_checked, &mut nontrivial)));
    let violation = match r {
        Ok(Ok(())) => None,
        Ok(Err(m)) => Some(m),
        Err(e) => Some(format!("panic: {}", crate::panic_message(e))),
    };
    Outcome { nontrivial, violation, actions, calls_checked }
}

fn inner(seed: u64, actions: &mut Vec<String>, calls_checked: &mut u64, nontrivial: &mut bool) -> Result<(), String> {
    let mut rng = Rng::new(seed);
    let st = IncrState::new();
    let base = st.var(10i64);
    let calls: Rc<RefCell<Vec<i64>>> = Rc::new(RefCell::new(vec![]));
    let memo = {
        let calls = calls.clone();
        let base = base.clone();
        st.weak_memoize_fn(move |key: i64| {
            calls.borrow_mut().push(key);
            base.map(move |x| x + key)
        })
    };
    let memo = Rc::new(RefCell::new(memo));
    let call = |k: i64| -> Incr<i64> { (memo.borrow_mut())(k) };
    // harness-held handles per key, each optionally observed
    let mut held: Vec<Vec<(Incr<i64>, Option<Observer<i64>>)>> = (0..KEYS).map(|_| vec![]).collect();
    // keys whose last reference went away; true once a stabilise has run since
    let mut collected: Vec<Option<bool>> = (0..KEYS).map(|_| Some(true)).collect();
    let mut binds: Vec<BindRec> = vec![];
    let mut base_val = 10i64;
    let obtained_in_bind: Rc<RefCell<Vec<i64>>> = Rc::new(RefCell::new(vec![]));
    let in_closure = Rc::new(Cell::new(false));
    let refs = |held: &Vec<Vec<(Incr<i64>, Option<Observer<i64>>)>>, binds: &Vec<BindRec>, k: i64| -> usize {
        held[k as usize].len() + binds.iter().filter(|b| b.holding == Some(k)).count()
    };
    let n_actions = 20 + rng.below(40);
    for _ in 0..n_actions {
        match rng.below(10) {
            0 | 1 | 2 => {
                let k = rng.below(KEYS as usize) as i64;
                let before = calls.borrow().len();
                let live = refs(&held, &binds, k);
                let node = call(k);
                let after = calls.borrow().len();
                actions.push(format!("call({k}) live_refs={live} invoked={}", after - before));
                *calls_checked += 1;
                if live > 0 {
                    if after != before {
                        return Err(format!("memoised call for key {k} invoked the function although {live} reference(s) to its node are alive"));
                    }
                    if let Some((h, _)) = held[k as usize].first() {
                        if *h != node {
                            return Err(format!("memoised call for key {k} returned a different node while one is still held"));
                        }
                    }
                } else if collected[k as usize] == Some(true) {
                    if after == before {
                        return Err(format!("memoised call for key {k} did not invoke the function although every reference was gone and a stabilise had run"));
                    }
                }
                collected[k as usize] = None;
                let observe = rng.chance(1, 2);
                let o = if observe { Some(node.observe()) } else { None };
                held[k as usize].push((node, o));
            }
            3 => {
                let k = rng.below(KEYS as usize);
                if !held[k].is_empty() {
                    let i = rng.below(held[k].len());
                    held[k].remove(i);
                    actions.push(format!("drop_held({k})"));
                    if refs(&held, &binds, k as i64) == 0 {
                        collected[k] = Some(false);
                    }
                }
            }
            4 => {
                if binds.len() < 3 {
                    let sel = st.var(rng.below(KEYS as usize) as i64);
                    let nested = rng.chance(1, 3);
                    let memo2 = memo.clone();
                    let ob = obtained_in_bind.clone();
                    let inc = in_closure.clone();
                    let node = if nested {
                        let outer_sel = sel.clone();
                        let k0 = st.constant(0i64);
                        k0.bind(move |_| {
                            let memo3 = memo2.clone();
                            let ob = ob.clone();
                            let inc = inc.clone();
                            outer_sel.bind(move |s| {
                                inc.set(true);
                                ob.borrow_mut().push(*s);
                                let n = (memo3.borrow_mut())(*s);
                                inc.set(false);
                                n
                            })
                        })
                    } else {
                        sel.bind(move |s| {
                            inc.set(true);
                            ob.borrow_mut().push(*s);
                            let n = (memo2.borrow_mut())(*s);
                            inc.set(false);
                            n
                        })
                    };
                    let obs = node.observe();
                    actions.push(format!("new_bind(nested={nested}, sel={})", sel.get()));
                    binds.push(BindRec { sel, obs, node, nested, holding: None });
                }
            }
            5 | 6 => {
                if !binds.is_empty() {
                    let i = rng.below(binds.len());
                    let k = rng.below(KEYS as usize) as i64;
                    binds[i].sel.set(k);
                    actions.push(format!("bind{i}.sel={k}"));
                }
            }
            7 => {
                base_val = rng.range(0, 50);
                base.set(base_val);
                actions.push(format!("base={base_val}"));
            }
            _ => {
                let before = calls.borrow().len();
                let will_hold: Vec<i64> = binds.iter().map(|b| b.sel.get()).collect();
                // keys whose node is alive right now need no call from inside the binds
                // (a bind that switches away in this round releases its node during the round)
                let alive_before: Vec<bool> = (0..KEYS)
                    .map(|k| {
                        !held[k as usize].is_empty()
                            || binds.iter().zip(&will_hold).any(|(b, w)| b.holding == Some(k) && *w == k)
                    })
                    .collect();
                st.stabilise();
                let invoked: Vec<i64> = calls.borrow()[before..].to_vec();
                actions.push(format!("stabilise (function invoked for {:?})", invoked));
                for k in &invoked {
                    if alive_before[*k as usize] {
                        return Err(format!("a memoised call from inside a bind invoked the function for key {k} although its node was alive"));
                    }
                }
                for (i, b) in binds.iter_mut().enumerate() {
                    let old = b.holding;
                    b.holding = Some(will_hold[i]);
                    if old.is_some() && old != b.holding {
                        *nontrivial = true;
                    }
                    let got = b.obs.try_get_value();
                    if got != Ok(base_val + will_hold[i]) {
                        return Err(format!("bind{i} (nested={}) returned {:?}, expected {}", b.nested, got, base_val + will_hold[i]));
                    }
                }
                for k in 0..KEYS as usize {
                    if refs(&held, &binds, k as i64) == 0 {
                        if collected[k] == Some(false) || collected[k].is_none() {
                            collected[k] = Some(true);
                        }
                    } else {
                        collected[k] = None;
                    }
                    for (_, o) in &held[k] {
                        if let Some(o) = o {
                            let got = o.try_get_value();
                            match got {
                                Ok(v) if v == base_val + k as i64 => {}
                                Err(ObserverError::NeverStabilised) => {}
                                other => {
                                    return Err(format!(
                                        "a node for key {k} obtained from the memoised function returned {:?} after binds using it re-ran, expected {} (it must belong to the scope weak_memoize_fn was called in)",
                                        other,
                                        base_val + k as i64
                                    ))
                                }
                            }
                        }
                    }
                }
            }
        }
        if in_closure.get() {
            return Err("closure flag stuck".into());
        }
    }
    drop(binds);
    drop(held);
    st.stabilise();
    Ok(())
}

// ------------------------------------------------------------------------------------------
// the memoised function itself is created inside a bind closure: its nodes belong to that bind
// ------------------------------------------------------------------------------------------

type Memo = Box<dyn FnMut(i64) -> Incr<i64>>;

struct HeldInner {
    gen: u64,
    v: i64,
    key: i64,
    node: Incr<i64>,
    obs: Option<Observer<i64>>,
}

pub fn run_history_inner(seed: u64) -> Outcome {
    let mut actions = vec![];
    let mut calls_checked = 0u64;
    let mut nontrivial = false;
    let r = catch_unwind(AssertUnwindSafe(|| inner_scoped(seed, &mut actions, &mut calls_checked, &mut nontrivial)));
    let violation = match r {
        Ok(Ok(())) => None,
        Ok(Err(m)) => Some(m),
        Err(e) => Some(format!("panic: {}", crate::panic_message(e))),
    };
    Outcome { nontrivial, violation, actions, calls_checked }
}

fn inner_scoped(seed: u64, actions: &mut Vec<String>, calls_checked: &mut u64, nontrivial: &mut bool) -> Result<(), String> {
    let mut rng = Rng::new(seed ^ 0x5c09ed);
    let st = IncrState::new();
    let base = st.var(10i64);
    let calls: Rc<RefCell<Vec<(u64, i64)>>> = Rc::new(RefCell::new(vec![]));
    let stash: Rc<RefCell<Option<(u64, i64, Memo)>>> = Rc::new(RefCell::new(None));
    let gen_ctr = Rc::new(Cell::new(0u64));
    let msel = st.var(0i64);
    // the maker's closure returns the same node on every run in half of the histories
    let same_rhs = rng.chance(1, 2);
    let fixed = st.constant(-1i64);
    let maker: Incr<i64> = {
        let (calls, stash, gen_ctr, basew, fixed) = (calls.clone(), stash.clone(), gen_ctr.clone(), base.watch(), fixed.clone());
        msel.binds(move |ws, &v| {
            let st = ws.upgrade().unwrap();
            let gen = gen_ctr.get() + 1;
            gen_ctr.set(gen);
            let (calls, basew) = (calls.clone(), basew.clone());
            let mut memo = st.weak_memoize_fn(move |k: i64| {
                calls.borrow_mut().push((gen, k));
                basew.map(move |b| b + k + 100 * v)
            });
            let ret = if same_rhs { fixed.clone() } else { memo(0) };
            *stash.borrow_mut() = Some((gen, v, Box::new(memo)));
            ret
        })
    };
    let mut maker = Some((maker.observe(), maker, msel));
    st.stabilise();
    let mut held: Vec<HeldInner> = vec![];
    let mut base_val = 10i64;
    let mut msel_at_last_stabilise = 0i64;
    // generations whose bind scope has been torn down by a re-run of the maker
    let mut cur_gen = gen_ctr.get();
    if cur_gen != 1 {
        return Err(format!("maker closure ran {cur_gen} times in the first stabilise"));
    }
    let mut maker_dead = false;
    let n_actions = 15 + rng.below(30);
    for _ in 0..n_actions {
        match rng.below(10) {
            0 | 1 | 2 | 3 => {
                let k = rng.below(KEYS as usize) as i64;
                let (gen, v) = {
                    let s = stash.borrow();
                    let s = s.as_ref().unwrap();
                    (s.0, s.1)
                };
                // in non-same mode the bind itself holds the node for key 0 of the current generation
                let bind_holds = !same_rhs && k == 0 && !maker_dead;
                let live = held.iter().filter(|h| h.gen == gen && h.key == k).count() + bind_holds as usize;
                let before = calls.borrow().len();
                let node = {
                    let mut s = stash.borrow_mut();
                    (s.as_mut().unwrap().2)(k)
                };
                let after = calls.borrow().len();
                *calls_checked += 1;
                actions.push(format!("call(gen {gen}, key {k}) live_refs={live} invoked={} maker_dead={maker_dead}", after - before));
                if live > 0 {
                    if after != before {
                        return Err(format!("memoised call for key {k} invoked the function although {live} reference(s) to its node are alive"));
                    }
                    if let Some(h) = held.iter().find(|h| h.gen == gen && h.key == k) {
                        if h.node != node {
                            return Err(format!("memoised call for key {k} returned a different node while one is still held"));
                        }
                    }
                }
                if maker_dead {
                    *nontrivial = true;
                }
                let obs = if rng.chance(2, 3) { Some(node.observe()) } else { None };
                held.push(HeldInner { gen, v, key: k, node, obs });
            }
            4 => {
                if !held.is_empty() {
                    let i = rng.below(held.len());
                    let h = held.remove(i);
                    actions.push(format!("drop_held(gen {}, key {})", h.gen, h.key));
                }
            }
            5 | 6 => {
                if let Some((_, _, msel)) = &maker {
                    let v = rng.below(3) as i64;
                    msel.set(v);
                    actions.push(format!("maker_input={v}"));
                }
            }
            7 => {
                base_val = rng.range(0, 50);
                base.set(base_val);
                actions.push(format!("base={base_val}"));
            }
            8 => {
                // tear the maker down completely: unobserve, stabilise, drop the last handles
                if rng.chance(1, 3) {
                    if let Some((o, m, sel)) = maker.take() {
                        let will_rerun = sel.get() != msel_at_last_stabilise;
                        drop(o);
                        if will_rerun {
                            // an unobserved bind does not re-run; keep the bookkeeping simple
                            sel.set(msel_at_last_stabilise);
                        }
                        st.stabilise();
                        drop(m);
                        drop(sel);
                        st.stabilise();
                        maker_dead = true;
                        actions.push("maker torn down and dropped".into());
                    }
                }
            }
            _ => {
                st.stabilise();
                if let Some((_, _, msel)) = &maker {
                    let v = msel.get();
                    let reran = v != msel_at_last_stabilise;
                    msel_at_last_stabilise = v;
                    let g = gen_ctr.get();
                    if reran != (g != cur_gen) {
                        return Err(format!("maker bind input changed={reran} but its closure ran {} time(s)", g - cur_gen));
                    }
                    if reran && held.iter().any(|h| h.gen == cur_gen) {
                        *nontrivial = true;
                    }
                    cur_gen = g;
                }
                actions.push(format!("stabilise (generation now {cur_gen})"));
                for h in &held {
                    let Some(o) = &h.obs else { continue };
                    let got = o.try_get_value();
                    if h.gen == cur_gen {
                        let want = base_val + h.key + 100 * h.v;
                        match got {
                            Ok(x) if x == want => {}
                            Err(ObserverError::NeverStabilised) => {}
                            other => {
                                return Err(format!(
                                    "node for key {} made by the memoised function of the current run (generation {}, maker_dead={maker_dead}) reads {:?}, expected {want}",
                                    h.key, h.gen, other
                                ))
                            }
                        }
                    } else {
                        match got {
                            Err(ObserverError::ObservingInvalid) | Err(ObserverError::NeverStabilised) => {}
                            other => {
                                return Err(format!(
                                    "node for key {} made by a memoised function created in an earlier run of its bind (generation {} < {cur_gen}) is still served: {:?} (it belongs to the scope weak_memoize_fn was called in, which has been re-run)",
                                    h.key, h.gen, other
                                ))
                            }
                        }
                    }
                }
            }
        }
    }
    drop(held);
    drop(maker);
    stash.borrow_mut().take();
    st.stabilise();
    Ok(())
}

pub fn run(seed: u64, shard: u64, count: u64) -> J {
    let (mut nontrivial, mut checked) = (0u64, 0u64);
    let mut violations = vec![];
    let mut samples = vec![];
    for i in 0..count {
        let hseed = mix(mix(seed, shard), i);
        let o = if i % 3 == 2 { run_history_inner(hseed) } else { run_history(hseed) };
        checked += o.calls_checked;
        if o.nontrivial {
            nontrivial += 1;
        }
        if samples.is_empty() && o.nontrivial {
            samples.push(J::Arr(o.actions.iter().map(|a| J::s(a.clone())).collect()));
        }
        if let Some(m) = o.violation {
            if violations.len() < 10 {
                violations.push(J::obj(vec![
                    ("property", J::s("C20")),
                    ("message", J::s(format!("{m}; history: {:?}", o.actions))),
                    ("argv", J::Arr(vec![J::s("memo-one"), J::s(hseed.to_string()), J::s(if i % 3 == 2 { "inner" } else { "top" })])),
                ]));
            }
        }
    }
    J::obj(vec![
        ("workload", J::s("memo")),
        ("evaluations", J::Int(count as i64)),
        ("nontrivial", J::Int(nontrivial as i64)),
        ("stats", J::obj(vec![("memoised_calls_checked", J::Int(checked as i64))])),
        ("violations", J::Arr(violations)),
        ("samples", J::Arr(samples)),
    ])
}
