//! C20: weak_memoize_fn returns one shared node per live key, whatever the calling scope.

use crate::json::J;
use crate::rng::{mix, Rng};
use incremental::{Incr, IncrState, Observer, ObserverError, Var};
use std::cell::{Cell, RefCell};
use std::panic::{catch_unwind, AssertUnwindSafe};
use std::rc::Rc;

const KEYS: i64 = 3;

struct BindRec {
    sel: Var<i64>,
    obs: Observer<i64>,
    #[allow(dead_code)]
    node: Incr<i64>,
    nested: bool,
    /// key selected at the last stabilise (held by the bind as its right-hand side)
    holding: Option<i64>,
}

pub struct Outcome {
    pub nontrivial: bool,
    pub violation: Option<String>,
    pub actions: Vec<String>,
    pub calls_checked: u64,
}

pub fn run_history(seed: u64) -> Outcome {
    let mut actions = vec![];
    let mut calls_checked = 0u64;
    let mut nontrivial = false;
    let r = catch_unwind(AssertUnwindSafe(|| inner(seed, &mut actions, &mut calls_checked, &mut nontrivial)));
    let violation = match r {
        Ok(Ok(())) => None,
        Ok(Err(m)) => Some(m),
        Err(e) => Some(format!("panic: {}", crate::panic_message(e))),
    };
    Outcome { nontrivial, violation, actions, calls_checked }
}

fn inner(seed: u64, actions: &mut Vec<String>, calls_checked: &mut u64, nontrivial: &mut bool) -> Result<(), String> {
    let mut rng = Rng::new(seed);
    let st = IncrState::new();
    let base = st.var(10i64);
    let calls: Rc<RefCell<Vec<i64>>> = Rc::new(RefCell::new(vec![]));
    let memo = {
        let calls = calls.clone();
        let base = base.clone();
        st.weak_memoize_fn(move |key: i64| {
            calls.borrow_mut().push(key);
            base.map(move |x| x + key)
        })
    };
    let memo = Rc::new(RefCell::new(memo));
    let call = |k: i64| -> Incr<i64> { (memo.borrow_mut())(k) };
    // harness-held handles per key, each optionally observed
    let mut held: Vec<Vec<(Incr<i64>, Option<Observer<i64>>)>> = (0..KEYS).map(|_| vec![]).collect();
    // keys whose last reference went away; true once a stabilise has run since
    let mut collected: Vec<Option<bool>> = (0..KEYS).map(|_| Some(true)).collect();
    let mut binds: Vec<BindRec> = vec![];
    let mut base_val = 10i64;
    let obtained_in_bind: Rc<RefCell<Vec<i64>>> = Rc::new(RefCell::new(vec![]));
    let in_closure = Rc::new(Cell::new(false));
    let refs = |held: &Vec<Vec<(Incr<i64>, Option<Observer<i64>>)>>, binds: &Vec<BindRec>, k: i64| -> usize {
        held[k as usize].len() + binds.iter().filter(|b| b.holding == Some(k)).count()
    };
    let n_actions = 20 + rng.below(40);
    for _ in 0..n_actions {
        match rng.below(10) {
            0 | 1 | 2 => {
                let k = rng.below(KEYS as usize) as i64;
                let before = calls.borrow().len();
                let live = refs(&held, &binds, k);
                let node = call(k);
                let after = calls.borrow().len();
                actions.push(format!("call({k}) live_refs={live} invoked={}", after - before));
                *calls_checked += 1;
                if live > 0 {
                    if after != before {
                        return Err(format!("memoised call for key {k} invoked the function although {live} reference(s) to its node are alive"));
                    }
                    if let Some((h, _)) = held[k as usize].first() {
                        if *h != node {
                            return Err(format!("memoised call for key {k} returned a different node while one is still held"));
                        }
                    }
                } else if collected[k as usize] == Some(true) {
                    if after == before {
                        return Err(format!("memoised call for key {k} did not invoke the function although every reference was gone and a stabilise had run"));
                    }
                }
                collected[k as usize] = None;
                let observe = rng.chance(1, 2);
                let o = if observe { Some(node.observe()) } else { None };
                held[k as usize].push((node, o));
            }
            3 => {
                let k = rng.below(KEYS as usize);
                if !held[k].is_empty() {
                    let i = rng.below(held[k].len());
                    held[k].remove(i);
                    actions.push(format!("drop_held({k})"));
                    if refs(&held, &binds, k as i64) == 0 {
                        collected[k] = Some(false);
                    }
                }
            }
            4 => {
                if binds.len() < 3 {
                    let sel = st.var(rng.below(KEYS as usize) as i64);
                    let nested = rng.chance(1, 3);
                    let memo2 = memo.clone();
                    let ob = obtained_in_bind.clone();
                    let inc = in_closure.clone();
                    let node = if nested {
                        let outer_sel = sel.clone();
                        let k0 = st.constant(0i64);
                        k0.bind(move |_| {
                            let memo3 = memo2.clone();
                            let ob = ob.clone();
                            let inc = inc.clone();
                            outer_sel.bind(move |s| {
                                inc.set(true);
                                ob.borrow_mut().push(*s);
                                let n = (memo3.borrow_mut())(*s);
                                inc.set(false);
                                n
                            })
                        })
                    } else {
                        sel.bind(move |s| {
                            inc.set(true);
                            ob.borrow_mut().push(*s);
                            let n = (memo2.borrow_mut())(*s);
                            inc.set(false);
                            n
                        })
                    };
                    let obs = node.observe();
                    actions.push(format!("new_bind(nested={nested}, sel={})", sel.get()));
                    binds.push(BindRec { sel, obs, node, nested, holding: None });
                }
            }
            5 | 6 => {
                if !binds.is_empty() {
                    let i = rng.below(binds.len());
                    let k = rng.below(KEYS as usize) as i64;
                    binds[i].sel.set(k);
                    actions.push(format!("bind{i}.sel={k}"));
                }
            }
            7 => {
                base_val = rng.range(0, 50);
                base.set(base_val);
                actions.push(format!("base={base_val}"));
            }
            _ => {
                let before = calls.borrow().len();
                let will_hold: Vec<i64> = binds.iter().map(|b| b.sel.get()).collect();
                // keys whose node is alive right now need no call from inside the binds
                // (a bind that switches away in this round releases its node during the round)
                let alive_before: Vec<bool> = (0..KEYS)
                    .map(|k| {
                        !held[k as usize].is_empty()
                            || binds.iter().zip(&will_hold).any(|(b, w)| b.holding == Some(k) && *w == k)
                    })
                    .collect();
                st.stabilise();
                let invoked: Vec<i64> = calls.borrow()[before..].to_vec();
                actions.push(format!("stabilise (function invoked for {:?})", invoked));
                for k in &invoked {
                    if alive_before[*k as usize] {
                        return Err(format!("a memoised call from inside a bind invoked the function for key {k} although its node was alive"));
                    }
                }
                for (i, b) in binds.iter_mut().enumerate() {
                    let old = b.holding;
                    b.holding = Some(will_hold[i]);
                    if old.is_some() && old != b.holding {
                        *nontrivial = true;
                    }
                    let got = b.obs.try_get_value();
                    if got != Ok(base_val + will_hold[i]) {
                        return Err(format!("bind{i} (nested={}) returned {:?}, expected {}", b.nested, got, base_val + will_hold[i]));
                    }
                }
                for k in 0..KEYS as usize {
                    if refs(&held, &binds, k as i64) == 0 {
                        if collected[k] == Some(false) || collected[k].is_none() {
                            collected[k] = Some(true);
                        }
                    } else {
                        collected[k] = None;
                    }
                    for (_, o) in &held[k] {
                        if let Some(o) = o {
                            let got = o.try_get_value();
                            match got {
                                Ok(v) if v == base_val + k as i64 => {}
                                Err(ObserverError::NeverStabilised) => {}
                                other => {
                                    return Err(format!(
                                        "a node for key {k} obtained from the memoised function returned {:?} after binds using it re-ran, expected {} (it must belong to the scope weak_memoize_fn was called in)",
                                        other,
                                        base_val + k as i64
                                    ))
                                }
                            }
                        }
                    }
                }
            }
        }
        if in_closure.get() {
            return Err("closure flag stuck".into());
        }
    }
    drop(binds);
    drop(held);
    st.stabilise();
    Ok(())
}

// ------------------------------------------------------------------------------------------
// the memoised function itself is created inside a bind closure: its nodes belong to that bind
// ------------------------------------------------------------------------------------------

type Memo = Box<dyn FnMut(i64) -> Incr<i64>>;

struct HeldInner {
    gen: u64,
    v: i64,
    key: i64,
    node: Incr<i64>,
    obs: Option<Observer<i64>>,
}

pub fn run_history_inner(seed: u64) -> Outcome {
    let mut actions = vec![];
    let mut calls_checked = 0u64;
    let mut nontrivial = false;
    let r = catch_unwind(AssertUnwindSafe(|| inner_scoped(seed, &mut actions, &mut calls_checked, &mut nontrivial)));
    let violation = match r {
        Ok(Ok(())) => None,
        Ok(Err(m)) => Some(m),
        Err(e) => Some(format!("panic: {}", crate::panic_message(e))),
    };
    Outcome { nontrivial, violation, actions, calls_checked }
}

fn inner_scoped(seed: u64, actions: &mut Vec<String>, calls_checked: &mut u64, nontrivial: &mut bool) -> Result<(), String> {
    let mut rng = Rng::new(seed ^ 0x5c09ed);
    let st = IncrState::new();
    let base = st.var(10i64);
    let calls: Rc<RefCell<Vec<(u64, i64)>>> = Rc::new(RefCell::new(vec![]));
    let stash: Rc<RefCell<Option<(u64, i64, Memo)>>> = Rc::new(RefCell::new(None));
    // the memoised functions of earlier runs stay callable (the user kept them)
    let old_fns: Rc<RefCell<Vec<(u64, Memo)>>> = Rc::new(RefCell::new(vec![]));
    let gen_ctr = Rc::new(Cell::new(0u64));
    let msel = st.var(0i64);
    // the maker's closure returns the same node on every run in half of the histories
    let same_rhs = rng.chance(1, 2);
    let fixed = st.constant(-1i64);
    // in half of the histories the bind that creates the memoised function is itself built by the
    // closure of an outer bind: when the outer one re-runs, the inner bind and everything made in
    // its scope is discarded
    let nested = rng.chance(1, 2);
    let osel = st.var(0i64);
    let make_inner = {
        let (calls, stash, gen_ctr, basew, fixed, old_fns) = (calls.clone(), stash.clone(), gen_ctr.clone(), base.watch(), fixed.clone(), old_fns.clone());
        move |msel_w: &Incr<i64>| -> Incr<i64> {
            let (calls, stash, gen_ctr, basew, fixed, old_fns) = (calls.clone(), stash.clone(), gen_ctr.clone(), basew.clone(), fixed.clone(), old_fns.clone());
            msel_w.binds(move |ws, &v| {
                if let Some((g, _, f)) = stash.borrow_mut().take() {
                    old_fns.borrow_mut().push((g, f));
                }
                let st = ws.upgrade().unwrap();
                let gen = gen_ctr.get() + 1;
                gen_ctr.set(gen);
                let (calls, basew) = (calls.clone(), basew.clone());
                let mut memo = st.weak_memoize_fn(move |k: i64| {
                    calls.borrow_mut().push((gen, k));
                    basew.map(move |b| b + k + 100 * v)
                });
                let ret = if same_rhs { fixed.clone() } else { memo(0) };
                *stash.borrow_mut() = Some((gen, v, Box::new(memo)));
                ret
            })
        }
    };
    let maker: Incr<i64> = if nested {
        let msel_w = msel.watch();
        osel.bind(move |_| make_inner(&msel_w))
    } else {
        make_inner(&msel.watch())
    };
    let mut maker = Some((maker.observe(), maker, msel));
    let mut osel_at_last_stabilise = 0i64;
    st.stabilise();
    let mut held: Vec<HeldInner> = vec![];
    let mut base_val = 10i64;
    let mut msel_at_last_stabilise = 0i64;
    // generations whose bind scope has been torn down by a re-run of the maker
    let mut cur_gen = gen_ctr.get();
    if cur_gen != 1 {
        return Err(format!("maker closure ran {cur_gen} times in the first stabilise"));
    }
    let mut maker_dead = false;
    let n_actions = 15 + rng.below(30);
    for _ in 0..n_actions {
        match rng.below(11) {
            10 => {
                // a hit on the memoised function of an *earlier* run, for a key whose (invalidated)
                // node is still held: still the same node, still no invocation
                let cur = stash.borrow().as_ref().map(|s| s.0);
                let cands: Vec<usize> = (0..held.len()).filter(|i| Some(held[*i].gen) != cur && old_fns.borrow().iter().any(|(g, _)| *g == held[*i].gen)).collect();
                if cands.is_empty() {
                    continue;
                }
                let h = &held[*rng.pick(&cands)];
                let before = calls.borrow().len();
                let node = {
                    let mut o = old_fns.borrow_mut();
                    let f = o.iter_mut().find(|(g, _)| *g == h.gen).unwrap();
                    (f.1)(h.key)
                };
                let after = calls.borrow().len();
                *calls_checked += 1;
                actions.push(format!("call(old gen {}, key {}) on a held node, invoked={}", h.gen, h.key, after - before));
                if after != before {
                    return Err(format!("memoised call (function of an earlier run of its bind) for key {} invoked the function although a reference to its node is alive", h.key));
                }
                if node != h.node {
                    return Err(format!("memoised call (function of an earlier run of its bind) for key {} returned a different node while one is still held", h.key));
                }
                *nontrivial = true;
            }
            0 | 1 | 2 | 3 => {
                let k = rng.below(KEYS as usize) as i64;
                let (gen, v) = {
                    let s = stash.borrow();
                    let s = s.as_ref().unwrap();
                    (s.0, s.1)
                };
                // in non-same mode the bind itself holds the node for key 0 of the current generation
                let bind_holds = !same_rhs && k == 0 && !maker_dead;
                let live = held.iter().filter(|h| h.gen == gen && h.key == k).count() + bind_holds as usize;
                let before = calls.borrow().len();
                let node = {
                    let mut s = stash.borrow_mut();
                    (s.as_mut().unwrap().2)(k)
                };
                let after = calls.borrow().len();
                *calls_checked += 1;
                actions.push(format!("call(gen {gen}, key {k}) live_refs={live} invoked={} maker_dead={maker_dead}", after - before));
                if live > 0 {
                    if after != before {
                        return Err(format!("memoised call for key {k} invoked the function although {live} reference(s) to its node are alive"));
                    }
                    if let Some(h) = held.iter().find(|h| h.gen == gen && h.key == k) {
                        if h.node != node {
                            return Err(format!("memoised call for key {k} returned a different node while one is still held"));
                        }
                    }
                }
                if maker_dead {
                    *nontrivial = true;
                }
                let obs = if rng.chance(2, 3) { Some(node.observe()) } else { None };
                held.push(HeldInner { gen, v, key: k, node, obs });
            }
            4 => {
                if !held.is_empty() {
                    let i = rng.below(held.len());
                    let h = held.remove(i);
                    actions.push(format!("drop_held(gen {}, key {})", h.gen, h.key));
                }
            }
            5 | 6 => {
                if let Some((_, _, msel)) = &maker {
                    if nested && rng.chance(1, 3) {
                        let v = rng.below(3) as i64;
                        osel.set(v);
                        actions.push(format!("outer_input={v}"));
                    } else {
                        let v = rng.below(3) as i64;
                        msel.set(v);
                        actions.push(format!("maker_input={v}"));
                    }
                }
            }
            7 => {
                base_val = rng.range(0, 50);
                base.set(base_val);
                actions.push(format!("base={base_val}"));
            }
            8 => {
                // tear the maker down completely: unobserve, stabilise, drop the last handles
                if rng.chance(1, 3) {
                    if let Some((o, m, sel)) = maker.take() {
                        let will_rerun = sel.get() != msel_at_last_stabilise;
                        drop(o);
                        if will_rerun {
                            // an unobserved bind does not re-run; keep the bookkeeping simple
                            sel.set(msel_at_last_stabilise);
                        }
                        osel.set(osel_at_last_stabilise);
                        st.stabilise();
                        drop(m);
                        drop(sel);
                        st.stabilise();
                        maker_dead = true;
                        actions.push("maker torn down and dropped".into());
                    }
                }
            }
            _ => {
                st.stabilise();
                if let Some((_, _, msel)) = &maker {
                    let v = msel.get();
                    let reran = v != msel_at_last_stabilise || (nested && osel.get() != osel_at_last_stabilise);
                    msel_at_last_stabilise = v;
                    osel_at_last_stabilise = osel.get();
                    let g = gen_ctr.get();
                    if reran != (g != cur_gen) || g > cur_gen + 1 {
                        return Err(format!("maker bind (nested={nested}) input changed={reran} but its closure ran {} time(s)", g - cur_gen));
                    }
                    if reran && held.iter().any(|h| h.gen == cur_gen) {
                        *nontrivial = true;
                    }
                    cur_gen = g;
                }
                actions.push(format!("stabilise (generation now {cur_gen}, nested={nested})"));
                for h in &held {
                    let Some(o) = &h.obs else { continue };
                    let got = o.try_get_value();
                    if h.gen == cur_gen {
                        let want = base_val + h.key + 100 * h.v;
                        match got {
                            Ok(x) if x == want => {}
                            Err(ObserverError::NeverStabilised) => {}
                            other => {
                                return Err(format!(
                                    "node for key {} made by the memoised function of the current run (generation {}, maker_dead={maker_dead}) reads {:?}, expected {want}",
                                    h.key, h.gen, other
                                ))
                            }
                        }
                    } else {
                        match got {
                            Err(ObserverError::ObservingInvalid) | Err(ObserverError::NeverStabilised) => {}
                            other => {
                                return Err(format!(
                                    "node for key {} made by a memoised function created in an earlier run of its bind (generation {} < {cur_gen}) is still served: {:?} (it belongs to the scope weak_memoize_fn was called in, which has been re-run)",
                                    h.key, h.gen, other
                                ))
                            }
                        }
                    }
                }
            }
        }
    }
    drop(held);
    drop(maker);
    stash.borrow_mut().take();
    old_fns.borrow_mut().clear();
    st.stabilise();
    Ok(())
}

// ------------------------------------------------------------------------------------------
// a memoised function that calls its own memoised version, and memo tables keyed by nodes
// ------------------------------------------------------------------------------------------

type MemoFn = Rc<dyn Fn(i64) -> Incr<i64>>;

pub fn run_history_rec(seed: u64) -> Outcome {
    let mut actions = vec![];
    let mut calls_checked = 0u64;
    let mut nontrivial = false;
    let r = catch_unwind(AssertUnwindSafe(|| inner_rec(seed, &mut actions, &mut calls_checked, &mut nontrivial)));
    let violation = match r {
        Ok(Ok(())) => None,
        Ok(Err(m)) => Some(m),
        Err(e) => Some(format!("panic: {}", crate::panic_message(e))),
    };
    Outcome { nontrivial, violation, actions, calls_checked }
}

fn inner_rec(seed: u64, actions: &mut Vec<String>, calls_checked: &mut u64, nontrivial: &mut bool) -> Result<(), String> {
    const N: usize = 9;
    let mut rng = Rng::new(seed ^ 0xf1b0);
    let st = IncrState::new();
    let base = st.var(1i64);
    // ---- recursive family: F(0)=b, F(1)=b+1, F(n)=F(n-1)+F(n-2), all through one memo table ----
    let fcalls: Rc<RefCell<Vec<i64>>> = Rc::new(RefCell::new(vec![]));
    let fib: MemoFn = {
        let slot: Rc<RefCell<Option<std::rc::Weak<dyn Fn(i64) -> Incr<i64>>>>> = Rc::new(RefCell::new(None));
        let memoized = st.weak_memoize_fn({
            let (slot, fcalls, basew) = (slot.clone(), fcalls.clone(), base.watch());
            move |n: i64| -> Incr<i64> {
                fcalls.borrow_mut().push(n);
                if n < 2 {
                    return basew.map(move |b| b + n);
                }
                let me: MemoFn = slot.borrow().as_ref().and_then(std::rc::Weak::upgrade).expect("verif: memo slot");
                let (a, b) = (me(n - 1), me(n - 2));
                a.map2(&b, |a, b| a + b)
            }
        });
        let memo: MemoFn = Rc::new(move |n| {
            let mut m = memoized.clone();
            m(n)
        });
        slot.replace(Some(Rc::downgrade(&memo)));
        memo
    };
    let fref = |b: i64, n: usize| -> i64 {
        let mut v = vec![b, b + 1];
        for i in 2..=n {
            let x = v[i - 1] + v[i - 2];
            v.push(x);
        }
        v[n]
    };
    // ---- chained tables: base_of(id) keyed by integer, view_of(node) keyed by the node itself ----
    let (bcalls, vcalls): (Rc<RefCell<Vec<i64>>>, Rc<Cell<u32>>) = (Rc::new(RefCell::new(vec![])), Rc::new(Cell::new(0)));
    let mut base_of = st.weak_memoize_fn({
        let (bcalls, basew) = (bcalls.clone(), base.watch());
        move |id: i64| {
            bcalls.borrow_mut().push(id);
            basew.map(move |b| b * 10 + id)
        }
    });
    let mut view_of = st.weak_memoize_fn({
        let vcalls = vcalls.clone();
        move |source: Incr<i64>| {
            vcalls.set(vcalls.get() + 1);
            source.map(|x| x + 1000)
        }
    });
    let mut held_f: Vec<(usize, Incr<i64>, Option<Observer<i64>>)> = vec![];
    let mut held_v: Vec<(i64, Incr<i64>, Option<Observer<i64>>)> = vec![];
    // a key of the recursive family is alive while a held node reaches it
    // a bind that returns F(sel): walking sel up and down makes each new right-hand side a node
    // built on the previous one (or the other way round)
    let fsel = st.var(2i64);
    let fbind = {
        let fib = fib.clone();
        fsel.bind(move |s| fib(*s))
    };
    let fbind_obs = fbind.observe();
    let mut fsel_val = 2usize;
    // key the bind holds (as of the last stabilise)
    let bind_holds: Cell<Option<usize>> = Cell::new(None);
    let alive_f = |held: &Vec<(usize, Incr<i64>, Option<Observer<i64>>)>, k: usize| {
        held.iter().map(|(n, _, _)| *n).chain(bind_holds.get()).any(|n| n == k || (n >= 2 && k < n))
    };
    // stabilises since the key (or id) was last alive
    let mut dead_rounds_f = [1u32; N + 1];
    let mut dead_rounds_v = [1u32; 4];
    let mut base_val = 1i64;
    let n_actions = 20 + rng.below(40);
    for _ in 0..n_actions {
        match rng.below(10) {
            0 | 1 | 2 => {
                let n = rng.below(N + 1);
                let before = fcalls.borrow().len();
                let was_alive: Vec<bool> = (0..=N).map(|k| alive_f(&held_f, k)).collect();
                let node = fib(n as i64);
                let invoked: Vec<i64> = fcalls.borrow()[before..].to_vec();
                *calls_checked += 1;
                actions.push(format!("F({n}) invoked the function for {invoked:?}"));
                for k in &invoked {
                    if was_alive[*k as usize] {
                        return Err(format!("the recursive memoised function was invoked for key {k} although a node for it is still referenced (call F({n}))"));
                    }
                }
                let needed: Vec<usize> = if was_alive[n] { vec![] } else if n < 2 { vec![n] } else { (0..=n).filter(|k| !was_alive[*k]).collect() };
                for k in needed {
                    if dead_rounds_f[k] >= 1 && !invoked.contains(&(k as i64)) {
                        return Err(format!("F({n}) did not invoke the function for key {k} although every reference to its node was gone and a stabilise had run"));
                    }
                }
                if let Some((_, h, _)) = held_f.iter().find(|(m, _, _)| *m == n) {
                    if *h != node {
                        return Err(format!("F({n}) returned a different node while one is still held"));
                    }
                }
                if invoked.len() > 1 {
                    *nontrivial = true;
                }
                let o = if rng.chance(1, 2) { Some(node.observe()) } else { None };
                held_f.push((n, node, o));
            }
            3 => {
                if !held_f.is_empty() {
                    let i = rng.below(held_f.len());
                    let (n, _, _) = held_f.remove(i);
                    actions.push(format!("drop F({n})"));
                    for k in 0..=N {
                        if !alive_f(&held_f, k) && dead_rounds_f[k] == u32::MAX {
                            dead_rounds_f[k] = 0;
                        }
                    }
                }
            }
            4 | 5 => {
                let id = rng.below(4) as i64;
                let (b0, v0) = (bcalls.borrow().len(), vcalls.get());
                let was_alive = held_v.iter().any(|(i, _, _)| *i == id);
                let b = base_of(id);
                let v = view_of(b.clone());
                drop(b);
                let b_invoked = bcalls.borrow().len() - b0;
                let v_invoked = vcalls.get() - v0;
                *calls_checked += 1;
                actions.push(format!("view(base({id})) invoked base x{b_invoked}, view x{v_invoked} (alive={was_alive})"));
                if was_alive && (b_invoked != 0 || v_invoked != 0) {
                    return Err(format!("view(base({id})) invoked a function although its node is still referenced"));
                }
                if !was_alive && dead_rounds_v[id as usize] >= 1 && (b_invoked != 1 || v_invoked != 1) {
                    return Err(format!(
                        "view(base({id})): every reference was gone and {} stabilise(s) had run, but the base function was invoked {b_invoked} time(s) and the view function {v_invoked} time(s), expected 1 and 1 (a dead entry of the node-keyed table must not keep its key alive)",
                        dead_rounds_v[id as usize]
                    ));
                }
                if !was_alive {
                    *nontrivial = true;
                }
                if let Some((_, h, _)) = held_v.iter().find(|(i, _, _)| *i == id) {
                    if *h != v {
                        return Err(format!("view(base({id})) returned a different node while one is still held"));
                    }
                }
                let o = if rng.chance(1, 2) { Some(v.observe()) } else { None };
                held_v.push((id, v, o));
                dead_rounds_v[id as usize] = u32::MAX;
            }
            6 => {
                if !held_v.is_empty() {
                    let i = rng.below(held_v.len());
                    let (id, _, _) = held_v.remove(i);
                    actions.push(format!("drop view({id})"));
                    if !held_v.iter().any(|(j, _, _)| *j == id) {
                        dead_rounds_v[id as usize] = 0;
                    }
                }
            }
            7 => {
                if rng.chance(1, 2) {
                    base_val = rng.range(0, 9);
                    base.set(base_val);
                    actions.push(format!("base={base_val}"));
                } else {
                    fsel_val = if rng.chance(1, 2) { (fsel_val + 1).min(N) } else { fsel_val.saturating_sub(1) };
                    fsel.set(fsel_val as i64);
                    actions.push(format!("bind over F: sel={fsel_val}"));
                }
            }
            _ => {
                st.stabilise();
                actions.push("stabilise".into());
                if bind_holds.get() != Some(fsel_val) {
                    // the bind let go of its previous node during this stabilise
                    for k in 0..=N {
                        if dead_rounds_f[k] == u32::MAX {
                            dead_rounds_f[k] = 0;
                        }
                    }
                    bind_holds.set(Some(fsel_val));
                }
                match fbind_obs.try_get_value() {
                    Ok(x) if x == fref(base_val, fsel_val) => {}
                    other => return Err(format!("the bind over F({fsel_val}) reads {:?}, expected {}", other, fref(base_val, fsel_val))),
                }
                #[cfg(cormacrelf_incremental_rs_verif)]
                {
                    let audit = st.verif_audit();
                    if !audit.is_empty() {
                        return Err(format!("audit after stabilise: {}", audit.join(" | ")));
                    }
                }
                for k in 0..=N {
                    if alive_f(&held_f, k) {
                        dead_rounds_f[k] = u32::MAX;
                    } else if dead_rounds_f[k] != u32::MAX {
                        dead_rounds_f[k] = dead_rounds_f[k].saturating_add(1).min(1000);
                    }
                }
                for id in 0..4 {
                    if dead_rounds_v[id] != u32::MAX {
                        dead_rounds_v[id] = dead_rounds_v[id].saturating_add(1).min(1000);
                    }
                }
                for (n, _, o) in &held_f {
                    if let Some(o) = o {
                        match o.try_get_value() {
                            Ok(x) if x == fref(base_val, *n) => {}
                            Err(ObserverError::NeverStabilised) => {}
                            other => return Err(format!("F({n}) reads {:?}, expected {}", other, fref(base_val, *n))),
                        }
                    }
                }
                for (id, _, o) in &held_v {
                    if let Some(o) = o {
                        match o.try_get_value() {
                            Ok(x) if x == base_val * 10 + id + 1000 => {}
                            Err(ObserverError::NeverStabilised) => {}
                            other => return Err(format!("view(base({id})) reads {:?}, expected {}", other, base_val * 10 + id + 1000)),
                        }
                    }
                }
            }
        }
    }
    drop(held_f);
    drop(held_v);
    drop(fbind_obs);
    drop(fbind);
    st.stabilise();
    Ok(())
}

pub fn run(seed: u64, shard: u64, count: u64) -> J {
    let (mut nontrivial, mut checked) = (0u64, 0u64);
    let mut violations = vec![];
    let mut samples = vec![];
    for i in 0..count {
        let hseed = mix(mix(seed, shard), i);
        let o = match i % 4 {
            2 => run_history_inner(hseed),
            3 => run_history_rec(hseed),
            _ => run_history(hseed),
        };
        checked += o.calls_checked;
        if o.nontrivial {
            nontrivial += 1;
        }
        if samples.is_empty() && o.nontrivial {
            samples.push(J::Arr(o.actions.iter().map(|a| J::s(a.clone())).collect()));
        }
        if let Some(m) = o.violation {
            if violations.len() < 10 {
                violations.push(J::obj(vec![
                    ("property", J::s("C20")),
                    ("message", J::s(format!("{m}; history: {:?}", o.actions))),
                    ("argv", J::Arr(vec![J::s("memo-one"), J::s(hseed.to_string()), J::s(match i % 4 { 2 => "inner", 3 => "rec", _ => "top" })])),
                ]));
            }
        }
    }
    J::obj(vec![
        ("workload", J::s("memo")),
        ("evaluations", J::Int(count as i64)),
        ("nontrivial", J::Int(nontrivial as i64)),
        ("stats", J::obj(vec![("memoised_calls_checked", J::Int(checked as i64))])),
        ("violations", J::Arr(violations)),
        ("samples", J::Arr(samples)),
    ])
}
