//! C14: expert nodes whose dependencies are added and removed from a child's function.
//!
//! A *dynamic sum*: an expert node E sums the values delivered to the change callbacks of its
//! current dependencies. The dependency set is reconciled, from the function of E's static child
//! M, against a configuration the harness writes before each stabilise. Candidate children include
//! plain vars, maps, and the current right-hand-side node of two real binds (which is invalidated
//! whenever its bind re-runs). A `join` built as in the repository's tests runs alongside.

use crate::json::J;
use crate::rng::{mix, Rng};
use incremental::expert::{Dependency, Node as ExpertNode, WeakNode};
use incremental::{Incr, IncrState, Observer, ObserverError, Value, Var};
use std::cell::{Cell, RefCell};
use std::panic::{catch_unwind, AssertUnwindSafe};
use std::rc::Rc;

const SLOTS: usize = 4;
const POOL: usize = 9;
/// pool entry 8: a node created on the spot by the rewiring child, owned by the dependency alone
const FRESH: usize = 8;

struct DepRec {
    dep: Dependency<i64>,
    id: usize,
    node: Incr<i64>,
    pool: usize,
}

#[derive(Default)]
struct Shared {
    desired: RefCell<Vec<Option<usize>>>,
    make_stale: Cell<bool>,
    invalidate: Cell<bool>,
    remove_first: Cell<bool>,
    /// the rewiring child leaves the dependency set alone in its next run (an invalidated
    /// dependency then stays in place)
    lazy: Cell<bool>,
    /// current value of every pool entry, written by the harness before each stabilise
    expected: RefCell<Vec<i64>>,
    current: RefCell<Vec<Option<DepRec>>>,
    shadow: RefCell<Vec<Option<i64>>>,
    next_dep: Cell<usize>,
    recomputes_this_round: Cell<u32>,
    callbacks: Cell<u64>,
    problems: RefCell<Vec<String>>,
    obs_changes: RefCell<Vec<bool>>,
    removed_non_last: Cell<u64>,
    removed_invalid: Cell<u64>,
    added_on_computed: Cell<u64>,
    e_has_run: Cell<bool>,
    inner: RefCell<Vec<Option<Incr<i64>>>>,
    /// an observer the observability callback reads (must fail: we are inside stabilise)
    probe: RefCell<Option<std::rc::Weak<Observer<i64>>>>,
    probe_reads: Cell<u64>,
    /// C13: user-function invocation counter and injection point
    ticks: Cell<u64>,
    panic_at: Cell<Option<u64>>,
    last_kind: Cell<&'static str>,
    /// how often the map of pool entry 3+i ran in the current round
    map_runs: RefCell<Vec<u32>>,
    /// live closures of FRESH nodes
    fresh_live: Rc<Cell<isize>>,
    /// make_stale was called while the expert node was not observable
    stale_called_unobserved: Cell<bool>,
    e_observable: Cell<bool>,
}

struct FreshTok(Rc<Cell<isize>>);
impl Drop for FreshTok {
    fn drop(&mut self) {
        self.0.set(self.0.get() - 1);
    }
}

#[derive(Debug)]
struct Injected;

impl Shared {
    fn tick(&self, kind: &'static str) {
        let n = self.ticks.get();
        self.ticks.set(n + 1);
        self.last_kind.set(kind);
        if self.panic_at.get() == Some(n) {
            self.panic_at.set(None);
            std::panic::panic_any(Injected);
        }
    }
}

thread_local! {
    /// set while crash points are enumerated for a history whose only failure is the C07 probe
    static NO_PROBE: Cell<bool> = const { Cell::new(false) };
}

pub struct Outcome {
    pub violation: Option<String>,
    pub actions: Vec<String>,
    pub nontrivial: bool,
    pub recomputes: u64,
    pub callbacks: u64,
}

fn join<T: Value>(incr: &Incr<Incr<T>>) -> Incr<T> {
    let prev_rhs: Rc<RefCell<Option<Dependency<T>>>> = Rc::new(None.into());
    let state = incr.state();
    let join = ExpertNode::<T>::new(&state, {
        let prev_rhs_ = prev_rhs.clone();
        move || prev_rhs_.borrow().clone().unwrap().value_cloned()
    });
    let join_ = join.weak();
    let lhs_change = incr.map(move |rhs| {
        let dep = join_.add_dependency(rhs);
        let old = prev_rhs.borrow_mut().take();
        if let Some(prev) = old {
            join_.remove_dependency(prev);
        }
        prev_rhs.borrow_mut().replace(dep);
    });
    join.add_dependency(&lhs_change);
    join.watch()
}

pub fn run_history(seed: u64) -> Outcome {
    let mut actions = vec![];
    let mut stats = (false, 0u64, 0u64);
    let mut rounds = vec![];
    let r = catch_unwind(AssertUnwindSafe(|| inner(seed, &mut actions, &mut stats, None, &mut rounds)));
    let violation = match r {
        Ok(Ok(())) => None,
        Ok(Err(m)) => Some(m),
        Err(e) => Some(format!("panic: {}", crate::panic_message(e))),
    };
    Outcome { violation, actions, nontrivial: stats.0, recomputes: stats.1, callbacks: stats.2 }
}

fn inner(seed: u64, actions: &mut Vec<String>, stats: &mut (bool, u64, u64), fault: Option<(u32, u64)>, rounds: &mut Vec<(u32, u64)>) -> Result<(), String> {
    let mut rng = Rng::new(seed);
    let st = IncrState::new();
    let sh: Rc<Shared> = Rc::new(Shared::default());
    *sh.desired.borrow_mut() = vec![None; SLOTS];
    *sh.current.borrow_mut() = (0..SLOTS).map(|_| None).collect();
    *sh.inner.borrow_mut() = vec![None, None];
    *sh.map_runs.borrow_mut() = vec![0; 3];

    // pool
    let xs: Vec<Var<i64>> = (0..3).map(|i| st.var(i as i64 + 1)).collect();
    let ms: Vec<Incr<i64>> = xs
        .iter()
        .enumerate()
        .map(|(i, x)| {
            let sh5 = sh.clone();
            x.map(move |v| {
                sh5.tick("map");
                sh5.map_runs.borrow_mut()[i] += 1;
                v * 2
            })
        })
        .collect();
    let cs: Vec<Var<i64>> = (0..2).map(|_| st.var(1i64)).collect();
    let ks: Vec<Var<i64>> = (0..2).map(|j| st.var(100 * (j as i64 + 1))).collect();
    let mut binds: Vec<Incr<i64>> = vec![];
    let mut keep_binds: Vec<Observer<i64>> = vec![];
    for j in 0..2 {
        let k = ks[j].clone();
        let sh2 = sh.clone();
        let b = cs[j].bind(move |cv| {
            sh2.tick("bind");
            let cv = *cv;
            let sh4 = sh2.clone();
            let n = k.map(move |x| {
                sh4.tick("map");
                x + cv * 10
            });
            sh2.inner.borrow_mut()[j] = Some(n.clone());
            n
        });
        keep_binds.push(b.observe());
        binds.push(b);
    }
    let gen = st.var(0i64);

    // the expert node
    let e = ExpertNode::<i64>::new_(
        &st.weak(),
        {
            let sh = sh.clone();
            move || {
                sh.tick("expert_recompute");
                sh.recomputes_this_round.set(sh.recomputes_this_round.get() + 1);
                sh.e_has_run.set(true);
                let current = sh.current.borrow();
                let shadow = sh.shadow.borrow();
                let expected = sh.expected.borrow();
                let mut sum = 0;
                for d in current.iter().flatten() {
                    match shadow.get(d.id).copied().flatten() {
                        Some(v) => {
                            if v != expected[d.pool] {
                                sh.problems.borrow_mut().push(format!(
                                    "at a recompute of the expert node the last value delivered to the change callback of dependency #{} (pool entry {}) was {v}, the child's up-to-date value is {}",
                                    d.id, d.pool, expected[d.pool]
                                ));
                            }
                            sum += v;
                        }
                        None => sh.problems.borrow_mut().push(format!(
                            "the expert node recomputed before the change callback of dependency #{} (pool entry {}, value {}) was ever invoked",
                            d.id, d.pool, expected[d.pool]
                        )),
                    }
                }
                sum
            }
        },
        {
            let sh = sh.clone();
            move |b| {
                sh.tick("observability_cb");
                sh.obs_changes.borrow_mut().push(b);
                sh.e_observable.set(b);
                if let Some(o) = sh.probe.borrow().as_ref().and_then(|w| w.upgrade()).filter(|_| !NO_PROBE.with(|c| c.get())) {
                    sh.probe_reads.set(sh.probe_reads.get() + 1);
                    let r = o.try_get_value();
                    if r != Err(ObserverError::CurrentlyStabilising) {
                        sh.problems.borrow_mut().push(format!(
                            "[C07] an observer read from the expert node's observability callback (which runs inside stabilise) returned {:?} instead of CurrentlyStabilising",
                            r
                        ));
                    }
                }
                if b {
                    // after re-observation every callback has to fire again
                    for s in sh.shadow.borrow_mut().iter_mut() {
                        *s = None;
                    }
                }
            }
        },
    );
    let e_w: WeakNode<i64> = e.weak();
    let pool_node = {
        let xs: Vec<Incr<i64>> = xs.iter().map(|x| x.watch()).collect();
        let ms = ms.clone();
        let sh = sh.clone();
        move |p: usize| -> Incr<i64> {
            match p {
                0..=2 => xs[p].clone(),
                3..=5 => ms[p - 3].clone(),
                6 | 7 => sh.inner.borrow()[p - 6].clone().expect("bind has not run yet"),
                _ => {
                    sh.fresh_live.set(sh.fresh_live.get() + 1);
                    let tok = FreshTok(sh.fresh_live.clone());
                    xs[0].map(move |v| {
                        let _ = &tok;
                        v + 1000
                    })
                }
            }
        }
    };
    let m = gen.map3(&binds[0], &binds[1], {
        let sh = sh.clone();
        let e_w = e_w.clone();
        let order = Cell::new(seed);
        move |_, _, _| {
            sh.tick("child_fn");
            if sh.lazy.replace(false) {
                return;
            }
            let desired = sh.desired.borrow().clone();
            let mut slots: Vec<usize> = (0..SLOTS).collect();
            // visit the slots in a varying order, so that removals hit first/middle/last positions
            let mut o = order.get();
            o = mix(o, 17);
            order.set(o);
            if o % 2 == 0 {
                slots.reverse();
            }
            if sh.remove_first.replace(false) {
                slots.sort();
            }
            for s in slots {
                let keep_fresh = desired[s] == Some(FRESH) && sh.current.borrow()[s].as_ref().map_or(false, |d| d.pool == FRESH);
                if keep_fresh {
                    continue;
                }
                let want: Option<(usize, Incr<i64>)> = desired[s].map(|p| (p, pool_node(p)));
                let have_same = {
                    let cur = sh.current.borrow();
                    match (&cur[s], &want) {
                        (None, None) => true,
                        (Some(d), Some((_, n))) => d.node == *n,
                        _ => false,
                    }
                };
                if have_same {
                    continue;
                }
                let add_first = o % 3 != 0;
                let old = sh.current.borrow_mut()[s].take();
                let remove = |old: Option<DepRec>| {
                    if let Some(d) = old {
                        let n_live = sh.current.borrow().iter().flatten().count();
                        if n_live > 0 {
                            sh.removed_non_last.set(sh.removed_non_last.get() + 1);
                        }
                        if d.pool == 6 || d.pool == 7 {
                            let cur_inner = sh.inner.borrow()[d.pool - 6].clone();
                            if cur_inner.map_or(true, |c| c != d.node) {
                                sh.removed_invalid.set(sh.removed_invalid.get() + 1);
                            }
                        }
                        e_w.remove_dependency(d.dep);
                    }
                };
                let add = || -> Option<DepRec> {
                    want.clone().map(|(p, n)| {
                        let id = sh.next_dep.get();
                        sh.next_dep.set(id + 1);
                        sh.shadow.borrow_mut().push(None);
                        if sh.e_has_run.get() {
                            sh.added_on_computed.set(sh.added_on_computed.get() + 1);
                        }
                        let sh3 = sh.clone();
                        let dep = e_w.add_dependency_with(&n, move |v| {
                            sh3.tick("edge_callback");
                            sh3.callbacks.set(sh3.callbacks.get() + 1);
                            sh3.shadow.borrow_mut()[id] = Some(*v);
                        });
                        DepRec { dep, id, node: n, pool: p }
                    })
                };
                if add_first {
                    let new = add();
                    remove(old);
                    sh.current.borrow_mut()[s] = new;
                } else {
                    remove(old);
                    let new = add();
                    sh.current.borrow_mut()[s] = new;
                }
            }
            if sh.make_stale.replace(false) {
                if !sh.e_observable.get() {
                    sh.stale_called_unobserved.set(true);
                }
                e_w.make_stale();
            }
            if sh.invalidate.replace(false) {
                e_w.invalidate();
            }
        }
    });
    e.add_dependency(&m);
    let above = e.watch().map(|x| x + 1);

    // a join over the same pool
    let outer = st.var(ms[0].clone());
    let joined = join(&outer.watch());
    let mut join_target = 3usize;
    let mut join_target_prev = 3usize;
    let join_obs = Rc::new(joined.observe());
    *sh.probe.borrow_mut() = Some(Rc::downgrade(&join_obs));

    let mut e_obs: Option<Observer<i64>> = Some(e.watch().observe());
    // the rewiring child observed on its own: it then runs (and edits the dependency set) while
    // the expert node itself is not necessary
    let mut m_obs: Option<Observer<()>> = None;
    let mut above_obs: Option<Observer<i64>> = if rng.chance(1, 2) { Some(above.observe()) } else { None };
    let mut xvals = [1i64, 2, 3];
    let mut cvals = [1i64, 1];
    let kvals = [100i64, 200];
    let mut invalidated = false;
    let mut want_stale = false;
    let mut nontrivial = false;
    let mut round = 0u32;
    let n_actions = 15 + rng.below(45);
    // the desired configuration was edited since the child last reconciled it
    let mut desired_dirty = true;
    // Some(j): in the coming stabilise bind j re-runs while the child does not rewire
    let mut lazy_round: Option<usize> = None;
    let mut force_stabilise = false;
    let mut invalid_by_dependency = false;
    let mut quiet_since_stabilise = false;
    for _ in 0..n_actions {
        let code = if std::mem::take(&mut force_stabilise) { 11 } else { rng.below(12) };
        // nothing has been touched since the last stabilise
        let quiet = std::mem::replace(&mut quiet_since_stabilise, false);
        match code {
            0 | 1 | 2 => {
                let s = rng.below(SLOTS);
                let can_bind = round > 0;
                let v = if rng.chance(1, 5) {
                    None
                } else {
                    Some(if rng.chance(1, 6) { FRESH } else if can_bind && rng.chance(1, 3) { 6 + rng.below(2) } else if rng.chance(1, 3) {
                        // duplicate of another slot's child
                        sh.desired.borrow().iter().flatten().next().copied().unwrap_or(rng.below(6))
                    } else {
                        rng.below(6)
                    })
                };
                sh.desired.borrow_mut()[s] = v;
                desired_dirty = true;
                gen.update(|g| g + 1);
                if rng.chance(1, 4) {
                    sh.remove_first.set(true);
                }
                actions.push(format!("slot{s}:={:?}", v));
            }
            3 | 4 => {
                let i = rng.below(3);
                xvals[i] = rng.range(0, 9);
                xs[i].set(xvals[i]);
                actions.push(format!("x{i}:={}", xvals[i]));
            }
            5 => {
                let j = rng.below(2);
                cvals[j] = rng.range(0, 5);
                cs[j].set(cvals[j]);
                actions.push(format!("c{j}:={}", cvals[j]));
            }
            6 => {
                if e_obs.is_some() {
                    e_obs = None;
                    above_obs = None;
                    actions.push("unobserve".into());
                } else if !invalidated {
                    e_obs = Some(e.watch().observe());
                    if rng.chance(1, 2) {
                        above_obs = Some(above.observe());
                    }
                    actions.push("observe".into());
                }
            }
            7 => {
                if rng.chance(1, 3) {
                    if m_obs.is_some() {
                        m_obs = None;
                        actions.push("unobserve child".into());
                    } else {
                        m_obs = Some(m.observe());
                        actions.push("observe child".into());
                    }
                } else if (e_obs.is_some() || m_obs.is_some()) && rng.chance(1, 2) {
                    sh.make_stale.set(true);
                    want_stale = e_obs.is_some();
                    gen.update(|g| g + 1);
                    actions.push("make_stale".into());
                }
            }
            8 => {
                join_target = rng.below(6);
                let n = if join_target < 3 { xs[join_target].watch() } else { ms[join_target - 3].clone() };
                outer.set(n);
                actions.push(format!("join->{join_target}"));
            }
            10 if quiet && rng.chance(1, 2) && e_obs.is_some() && !invalidated && !desired_dirty && round > 0 && !sh.make_stale.get() && !sh.invalidate.get() => {
                // a bind whose node is (possibly) a current dependency re-runs, and the rewiring
                // child does not replace the dependency in that stabilise: an expert node that
                // recomputes with an invalidated dependency becomes invalid itself
                let j = rng.below(2);
                let nv = (cvals[j] + 1 + rng.range(0, 3)) % 6;
                if nv != cvals[j] {
                    cvals[j] = nv;
                    cs[j].set(nv);
                    sh.lazy.set(true);
                    lazy_round = Some(j);
                    force_stabilise = true;
                    actions.push(format!("c{j}:={nv} (the child will not rewire)"));
                }
            }
            9 if rng.chance(1, 6) && e_obs.is_some() && !invalidated => {
                sh.invalidate.set(true);
                gen.update(|g| g + 1);
                invalidated = true;
                actions.push("invalidate".into());
            }
            _ => {
                // stabilise
                round += 1;
                let exp: Vec<i64> = (0..POOL)
                    .map(|p| match p {
                        0..=2 => xvals[p],
                        3..=5 => xvals[p - 3] * 2,
                        6 | 7 => kvals[p - 6] + cvals[p - 6] * 10,
                        _ => xvals[0] + 1000,
                    })
                    .collect();
                *sh.expected.borrow_mut() = exp.clone();
                sh.recomputes_this_round.set(0);
                for r in sh.map_runs.borrow_mut().iter_mut() {
                    *r = 0;
                }
                // pool maps that some live observer needed before or needs after this round
                let needed_before: Vec<bool> = (0..3)
                    .map(|i| join_target_prev == 3 + i || (e_obs.is_some() && sh.current.borrow().iter().flatten().any(|d| d.pool == 3 + i)))
                    .collect();
                let observed_before = e_obs.is_some();
                let ticks_before = sh.ticks.get();
                if let Some((fr, off)) = fault {
                    if fr == round {
                        sh.panic_at.set(Some(ticks_before + off));
                        let r = catch_unwind(AssertUnwindSafe(|| st.stabilise()));
                        sh.panic_at.set(None);
                        let Err(e) = r else { return Err("FAULT-NOT-REACHED".into()) };
                        if e.downcast_ref::<Injected>().is_none() {
                            return Err(format!("[C04] stabilise panicked on its own: {}", crate::panic_message(e)));
                        }
                        let kind = sh.last_kind.get();
                        // reads fail, a further stabilise refuses, everything can be dropped
                        let mut reads: Vec<(String, Result<i64, ObserverError>)> = vec![("join".into(), join_obs.try_get_value())];
                        if let Some(o) = &e_obs {
                            reads.push(("expert".into(), o.try_get_value()));
                        }
                        if let Some(o) = &above_obs {
                            reads.push(("above".into(), o.try_get_value()));
                        }
                        for (i, o) in keep_binds.iter().enumerate() {
                            reads.push((format!("bind{i}"), o.try_get_value()));
                        }
                        for (name, r) in &reads {
                            if let Ok(v) = r {
                                return Err(format!("[C13] after a panic in a {kind} escaped stabilise, observer {name} still returns {v}"));
                            }
                        }
                        let t2 = sh.ticks.get();
                        if catch_unwind(AssertUnwindSafe(|| st.stabilise())).is_ok() {
                            return Err(format!("[C13] after a panic in a {kind} escaped stabilise, a further stabilise returned normally"));
                        }
                        if sh.ticks.get() != t2 {
                            return Err(format!("[C13] after a panic in a {kind} escaped stabilise, a further stabilise ran user functions"));
                        }
                        sh.current.borrow_mut().clear();
                        sh.inner.borrow_mut().clear();
                        return Err(format!("FAULT-OK {kind}"));
                    }
                }
                st.stabilise();
                quiet_since_stabilise = true;
                if let Some(j) = lazy_round.take() {
                    sh.lazy.set(false);
                    let kept_invalid = sh.current.borrow().iter().flatten().any(|d| d.pool == 6 + j);
                    if kept_invalid && e_obs.is_some() {
                        // the reference computation (a sum over an invalidated node) is invalid
                        invalidated = true;
                        invalid_by_dependency = true;
                    }
                } else if (e_obs.is_some() && !invalidated) || m_obs.is_some() {
                    desired_dirty = false;
                }
                rounds.push((round, sh.ticks.get() - ticks_before));
                actions.push(format!("stabilise#{round} (recomputes={})", sh.recomputes_this_round.get()));
                stats.1 += sh.recomputes_this_round.get() as u64;
                for i in 0..3 {
                    let needed_after = join_target == 3 + i || (e_obs.is_some() && !invalidated && sh.desired.borrow().iter().flatten().any(|p| *p == 3 + i));
                    if sh.map_runs.borrow()[i] > 0 && !needed_before[i] && !needed_after {
                        return Err(format!(
                            "[C05] the map behind pool entry {} ran in stabilise#{round} although no live observer needs it (it is neither a current dependency of the observed expert node nor the join's target)",
                            3 + i
                        ));
                    }
                }
                join_target_prev = join_target;
                if let Some(p) = sh.problems.borrow().first() {
                    return Err(p.clone());
                }
                if sh.recomputes_this_round.get() > 1 {
                    return Err(format!("the expert node recomputed {} times in one stabilise", sh.recomputes_this_round.get()));
                }
                // the join
                let jexp = if join_target < 3 { xvals[join_target] } else { xvals[join_target - 3] * 2 };
                if join_obs.try_get_value() != Ok(jexp) {
                    return Err(format!("join over pool entry {join_target} returned {:?}, expected {jexp}", join_obs.try_get_value()));
                }
                if let Some(o) = &e_obs {
                    let got = o.try_get_value();
                    if invalidated {
                        if got != Err(ObserverError::ObservingInvalid) {
                            return Err(format!(
                                "{} the expert node's observer returned {:?}",
                                if invalid_by_dependency { "the expert node recomputed while one of its dependencies was an invalidated node (its bind had re-run and the child did not replace it), but" } else { "after invalidate()" },
                                got
                            ));
                        }
                        if let Some(a) = &above_obs {
                            if a.try_get_value() != Err(ObserverError::ObservingInvalid) {
                                return Err(format!("after invalidate() a dependant of the expert node returned {:?}", a.try_get_value()));
                            }
                        }
                    } else {
                        let expected: i64 = sh.desired.borrow().iter().flatten().map(|p| exp[*p]).sum();
                        if got != Ok(expected) {
                            return Err(format!(
                                "dynamic sum over {:?} returned {:?}, the reference computation gives {expected}",
                                sh.desired.borrow(), got
                            ));
                        }
                        if let Some(a) = &above_obs {
                            let ga = a.try_get_value();
                            if ga != Ok(expected + 1) {
                                return Err(format!("dependant of the dynamic sum returned {:?}, expected {}", ga, expected + 1));
                            }
                        }
                        if want_stale && observed_before && sh.recomputes_this_round.get() != 1 {
                            return Err(format!("make_stale() led to {} recomputes in that stabilise, expected exactly 1", sh.recomputes_this_round.get()));
                        }
                    }
                }
                want_stale = false;
                if e_obs.is_some() && !invalidated && sh.stale_called_unobserved.replace(false) && sh.recomputes_this_round.get() != 1 {
                    return Err(format!(
                        "make_stale() was called while the expert node was unobserved; the first stabilise after it was observed again ran {} recomputes, expected exactly 1",
                        sh.recomputes_this_round.get()
                    ));
                }
                // (an invalidated node that the program still holds keeps its recorded inputs: not judged)
                if !invalidated {
                    let held = sh.current.borrow().iter().flatten().filter(|d| d.pool == FRESH).count() as isize;
                    if sh.fresh_live.get() != held {
                        return Err(format!(
                            "[C12] {} node(s) created for dependencies are still alive after stabilise#{round}, but only {held} dependency(ies) on such nodes exist (a removed dependency keeps its child alive)",
                            sh.fresh_live.get()
                        ));
                    }
                }
                if sh.removed_non_last.get() > 0 || sh.added_on_computed.get() > 0 {
                    nontrivial = true;
                }
                #[cfg(cormacrelf_incremental_rs_verif)]
                {
                    let audit = st.verif_audit();
                    if !audit.is_empty() {
                        return Err(format!("audit after stabilise#{round}: {}", audit.join(" | ")));
                    }
                }
            }
        }
    }
    stats.0 = nontrivial;
    stats.2 = sh.callbacks.get();
    // tear down: the shared table holds engine handles (dependencies' nodes), release them first
    sh.current.borrow_mut().clear();
    sh.inner.borrow_mut().clear();
    drop(e_obs);
    drop(m_obs);
    drop(above_obs);
    drop(join_obs);
    drop(keep_binds);
    st.stabilise();
    Ok(())
}

pub fn run(seed: u64, shard: u64, count: u64) -> J {
    let (mut nontrivial, mut recomputes, mut callbacks) = (0u64, 0u64, 0u64);
    let mut violations = vec![];
    let mut samples = vec![];
    for i in 0..count {
        let hseed = mix(mix(seed, shard), i);
        let o = run_history(hseed);
        recomputes += o.recomputes;
        callbacks += o.callbacks;
        if o.nontrivial {
            nontrivial += 1;
            if samples.is_empty() {
                samples.push(J::Arr(o.actions.iter().map(|a| J::s(a.clone())).collect()));
            }
        }
        if let Some(m) = o.violation {
            if violations.len() < 10 {
                violations.push(J::obj(vec![
                    ("property", J::s(if m.starts_with("[C07]") { "C07" } else if m.starts_with("[C05]") { "C05" } else if m.starts_with("[C12]") { "C12" } else { "C14" })),
                    ("message", J::s(format!("{m}; history: {:?}", o.actions))),
                    ("argv", J::Arr(vec![J::s("expert-one"), J::s(hseed.to_string())])),
                ]));
            }
        }
    }
    J::obj(vec![
        ("workload", J::s("expert")),
        ("evaluations", J::Int(count as i64)),
        ("nontrivial", J::Int(nontrivial as i64)),
        ("stats", J::obj(vec![
            ("expert_recomputes_checked", J::Int(recomputes as i64)),
            ("edge_callbacks_observed", J::Int(callbacks as i64)),
        ])),
        ("violations", J::Arr(violations)),
        ("samples", J::Arr(samples)),
    ])
}

/// C13 on expert constructions: a panic injected at every user-function invocation (expert
/// recompute, edge callback, the child function that rewires dependencies, observability callback,
/// bind closure, map) of the last stabilise that ran any.
pub fn run_faults(seed: u64, shard: u64, count: u64, progress: Option<&str>) -> J {
    let (mut points, mut inside) = (0u64, 0u64);
    let mut kinds: std::collections::BTreeMap<String, u64> = Default::default();
    let mut violations = vec![];
    let mut samples = vec![];
    for i in 0..count {
        let hseed = mix(mix(seed, shard), i);
        NO_PROBE.with(|c| c.set(false));
        let mut actions = vec![];
        let mut stats = (false, 0, 0);
        let mut rounds = vec![];
        let clean = catch_unwind(AssertUnwindSafe(|| inner(hseed, &mut actions, &mut stats, None, &mut rounds)));
        if !matches!(clean, Ok(Ok(()))) {
            // the history fails without any injected panic: that is a finding of the ordinary
            // expert monitors, not something to skip silently
            let m = match clean {
                Ok(Err(m)) => m,
                Err(e) => format!("[C04] panic: {}", crate::panic_message(e)),
                Ok(Ok(())) => unreachable!(),
            };
            if violations.len() < 10 {
                let prop = ["C04", "C05", "C07", "C12"].into_iter().find(|p| m.starts_with(&format!("[{p}]"))).unwrap_or("C14");
                violations.push(J::obj(vec![
                    ("property", J::s(prop)),
                    ("message", J::s(format!("expert workload (run without injected panic, before enumerating crash points): {m}; history {:?}", actions))),
                    ("argv", J::Arr(vec![J::s("expert-one"), J::s(hseed.to_string())])),
                ]));
            }
            if !m.starts_with("[C07]") {
                continue;
            }
            // still enumerate this history's crash points, with the probe read switched off
            NO_PROBE.with(|c| c.set(true));
            actions.clear();
            rounds.clear();
            let again = catch_unwind(AssertUnwindSafe(|| inner(hseed, &mut actions, &mut stats, None, &mut rounds)));
            if !matches!(again, Ok(Ok(()))) {
                NO_PROBE.with(|c| c.set(false));
                continue;
            }
        }
        let Some((round, n)) = rounds.iter().rev().find(|r| r.1 > 0).copied() else {
            NO_PROBE.with(|c| c.set(false));
            continue;
        };
        for off in 0..n.min(60) {
            if let Some(p) = progress {
                let _ = std::fs::write(p, format!("expert {i} {hseed} {round} {off}\n"));
            }
            let mut a2 = vec![];
            let mut s2 = (false, 0, 0);
            let mut r2 = vec![];
            let r = catch_unwind(AssertUnwindSafe(|| inner(hseed, &mut a2, &mut s2, Some((round, off)), &mut r2)));
            let msg = match r {
                Ok(Ok(())) => continue,
                Ok(Err(m)) => m,
                Err(e) => format!("[C13] dropping the handles after the escaped panic panicked again: {}", crate::panic_message(e)),
            };
            if msg == "FAULT-NOT-REACHED" {
                continue;
            }
            points += 1;
            if let Some(k) = msg.strip_prefix("FAULT-OK ") {
                *kinds.entry(format!("crash_in_{k}")).or_default() += 1;
                if off > 0 && off + 1 < n {
                    inside += 1;
                }
                if samples.is_empty() && off > 0 {
                    samples.push(J::obj(vec![("history_seed", J::s(hseed.to_string())), ("stabilise", J::Int(round as i64)), ("invocations", J::Int(n as i64)), ("panic_at", J::Int(off as i64)), ("kind", J::s(k))]));
                }
                continue;
            }
            if violations.len() < 10 {
                let prop = if msg.starts_with("[C04]") { "C04" } else { "C13" };
                violations.push(J::obj(vec![
                    ("property", J::s(prop)),
                    ("message", J::s(format!("expert workload, panic injected at invocation {off} of stabilise #{round}: {msg}; history {:?}", actions))),
                    ("argv", J::Arr(vec![J::s("expert-fault-one"), J::s(hseed.to_string()), J::s(round.to_string()), J::s(off.to_string())])),
                ]));
            }
        }
    }
    let mut st: Vec<(String, J)> = kinds.into_iter().map(|(k, v)| (k, J::Int(v as i64))).collect();
    st.push(("crash_points_strictly_inside_propagation".into(), J::Int(inside as i64)));
    J::obj(vec![
        ("workload", J::s("expert-faults")),
        ("evaluations", J::Int(points as i64)),
        ("nontrivial", J::Int(inside as i64)),
        ("stats", J::Obj(st)),
        ("violations", J::Arr(violations)),
        ("samples", J::Arr(samples)),
    ])
}

pub fn fault_one(seed: u64, round: u32, off: u64) -> Option<String> {
    let mut a = vec![];
    let mut s = (false, 0, 0);
    let mut r = vec![];
    match catch_unwind(AssertUnwindSafe(|| inner(seed, &mut a, &mut s, Some((round, off)), &mut r))) {
        Ok(Ok(())) => None,
        Ok(Err(m)) if m.starts_with("FAULT-") => None,
        Ok(Err(m)) => Some(m),
        Err(e) => Some(format!("[C13] dropping the handles after the escaped panic panicked again: {}", crate::panic_message(e))),
    }
}
