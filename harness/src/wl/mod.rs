pub mod expert;
pub mod leaks;
pub mod lifecycle;
pub mod maps;
pub mod limits;
pub mod memo;
pub mod scoped;
pub mod symdiff;
