pub mod lifecycle;
pub mod limits;
pub mod memo;
