//! C18: symmetric_fold visits exactly the differing keys once, in order; the ordered merge of two
//! diff streams (reached through incr_merge) pairs equal keys and keeps global key order.

use super::maps::{TestMap, B};
use crate::json::J;
use crate::rng::{mix, Rng};
use im_rc::OrdMap;
use incremental::IncrState;
use incremental_map::prelude::*;
use incremental_map::{DiffElement, MergeElement};
use std::cell::RefCell;
use std::collections::BTreeSet;
use std::rc::Rc;

#[derive(Debug, Clone, PartialEq)]
pub enum D {
    Left(i64),
    Right(i64),
    Unequal(i64, i64),
}

fn reference(a: &B, b: &B) -> Vec<(i64, D)> {
    let keys: BTreeSet<i64> = a.keys().chain(b.keys()).copied().collect();
    let mut out = vec![];
    for k in keys {
        match (a.get(&k), b.get(&k)) {
            (Some(x), None) => out.push((k, D::Left(*x))),
            (None, Some(y)) => out.push((k, D::Right(*y))),
            (Some(x), Some(y)) if x != y => out.push((k, D::Unequal(*x, *y))),
            _ => {}
        }
    }
    out
}

fn observed<M: TestMap + SymmetricFoldMap<i64, i64>>(a: &B, b: &B) -> Vec<(i64, D)> {
    let (ma, mb) = (M::from_b(a), M::from_b(b));
    ma.symmetric_fold(&mb, vec![], |mut acc, (k, d)| {
        acc.push((
            *k,
            match d {
                DiffElement::Left(x) => D::Left(*x),
                DiffElement::Right(y) => D::Right(*y),
                DiffElement::Unequal(x, y) => D::Unequal(*x, *y),
            },
        ));
        acc
    })
}

/// the i-th map over `nkeys` keys with values in {absent, 0, 1}
pub fn nth_map(mut i: usize, nkeys: usize) -> B {
    let mut m = B::new();
    for k in 0..nkeys {
        match i % 3 {
            1 => {
                m.insert(k as i64, 0);
            }
            2 => {
                m.insert(k as i64, 1);
            }
            _ => {}
        }
        i /= 3;
    }
    m
}

pub fn run_symfold() -> J {
    let n = 81usize;
    let mut evals = 0u64;
    let mut nontrivial = 0u64;
    let mut violations = vec![];
    let mut samples = vec![];
    for i in 0..n {
        for j in 0..n {
            let (a, b) = (nth_map(i, 4), nth_map(j, 4));
            let r = reference(&a, &b);
            for (name, got) in [
                ("BTreeMap", observed::<B>(&a, &b)),
                ("Rc<BTreeMap>", observed::<Rc<B>>(&a, &b)),
                ("OrdMap", observed::<OrdMap<i64, i64>>(&a, &b)),
            ] {
                evals += 1;
                if !r.is_empty() {
                    nontrivial += 1;
                }
                if got != r && violations.len() < 10 {
                    violations.push(J::obj(vec![
                        ("property", J::s("C18")),
                        ("message", J::s(format!("symmetric_fold<{name}>({a:?}, {b:?}) visited {got:?}, expected {r:?}"))),
                        ("argv", J::Arr(vec![J::s("symdiff"), J::s("fold")])),
                    ]));
                }
            }
            if samples.is_empty() && r.len() == 3 {
                samples.push(J::s(format!("symmetric_fold({a:?}, {b:?}) = {r:?}")));
            }
        }
    }
    J::obj(vec![
        ("workload", J::s("symdiff-fold")),
        ("evaluations", J::Int(evals as i64)),
        ("nontrivial", J::Int(nontrivial as i64)),
        ("stats", J::obj(vec![("pairs_of_maps_enumerated", J::Int((n * n) as i64))])),
        ("violations", J::Arr(violations)),
        ("samples", J::Arr(samples)),
    ])
}

fn merge_fn(k: i64, m: MergeElement<&i64, &i64>) -> Option<i64> {
    match m {
        MergeElement::Left(a) => Some(10 + a),
        MergeElement::Right(b) => Some(20 + b),
        MergeElement::Both(a, b) => {
            if *a == 1 && *b == 1 && k == 1 {
                None
            } else {
                Some(30 + a * 2 + b)
            }
        }
    }
}

fn plain_merge(l: &B, r: &B) -> B {
    let keys: BTreeSet<i64> = l.keys().chain(r.keys()).copied().collect();
    let mut out = B::new();
    for k in keys {
        let x = match (l.get(&k), r.get(&k)) {
            (Some(a), Some(b)) => merge_fn(k, MergeElement::Both(a, b)),
            (Some(a), None) => merge_fn(k, MergeElement::Left(a)),
            (None, Some(b)) => merge_fn(k, MergeElement::Right(b)),
            _ => None,
        };
        if let Some(x) = x {
            out.insert(k, x);
        }
    }
    out
}

/// every transition (old left, old right) -> (new left, new right) over 3 keys, for shard/nshards
pub fn run_merge<M>(shard: usize, nshards: usize) -> J
where
    M: TestMap,
    incremental::Incr<M>: MergeOp<M>,
{
    let n = 27usize;
    let st = IncrState::new();
    let vl = st.var(M::from_b(&B::new()));
    let vr = st.var(M::from_b(&B::new()));
    let calls: Rc<RefCell<Vec<i64>>> = Rc::new(RefCell::new(vec![]));
    let merged = <incremental::Incr<M> as MergeOp<M>>::merge(&vl.watch(), &vr.watch(), calls.clone());
    let obs = merged.observe();
    st.stabilise();
    let mut prev = (B::new(), B::new());
    let (mut evals, mut nontrivial) = (0u64, 0u64);
    let mut violations = vec![];
    let mut samples = vec![];
    let mut check = |prev: &(B, B), new: &(B, B), calls: &Vec<i64>, out: B, evals: &mut u64, nontrivial: &mut u64, violations: &mut Vec<J>, samples: &mut Vec<J>| {
        *evals += 1;
        let dl: BTreeSet<i64> = reference(&prev.0, &new.0).into_iter().map(|x| x.0).collect();
        let dr: BTreeSet<i64> = reference(&prev.1, &new.1).into_iter().map(|x| x.0).collect();
        let expected: Vec<i64> = dl.union(&dr).copied().filter(|k| new.0.contains_key(k) || new.1.contains_key(k)).collect();
        if !dl.is_empty() && !dr.is_empty() {
            *nontrivial += 1;
            if samples.is_empty() && expected.len() >= 2 {
                samples.push(J::s(format!("{prev:?} -> {new:?}: merge function called for keys {calls:?}")));
            }
        }
        let mut problem = None;
        if *calls != expected {
            problem = Some(format!("merge function was called for keys {calls:?}, expected exactly {expected:?} in ascending order"));
        }
        let plain = plain_merge(&new.0, &new.1);
        if out != plain {
            problem = Some(format!("output {out:?}, plain merge gives {plain:?}"));
        }
        if let Some(p) = problem {
            if violations.len() < 10 {
                violations.push(J::obj(vec![
                    ("property", J::s("C18")),
                    ("message", J::s(format!("incr_merge<{}> transition {prev:?} -> {new:?}: {p}", M::NAME))),
                    ("argv", J::Arr(vec![J::s("symdiff"), J::s("merge")])),
                ]));
            }
        }
    };
    let total = n * n;
    let mut p = shard;
    while p < total {
        let old = (nth_map(p % n, 3), nth_map(p / n, 3));
        for q in 0..total {
            let new = (nth_map(q % n, 3), nth_map(q / n, 3));
            for target in [&old, &new] {
                vl.set(M::from_b(&target.0));
                vr.set(M::from_b(&target.1));
                calls.borrow_mut().clear();
                st.stabilise();
                let out = obs.try_get_value().map(|m| m.to_b()).unwrap_or_default();
                let c = calls.borrow().clone();
                check(&prev, target, &c, out, &mut evals, &mut nontrivial, &mut violations, &mut samples);
                prev = target.clone();
            }
        }
        p += nshards;
    }
    J::obj(vec![
        ("workload", J::s(format!("symdiff-merge<{}>", M::NAME))),
        ("evaluations", J::Int(evals as i64)),
        ("nontrivial", J::Int(nontrivial as i64)),
        ("stats", J::obj(vec![("merge_transitions_checked", J::Int(evals as i64))])),
        ("violations", J::Arr(violations)),
        ("samples", J::Arr(samples)),
    ])
}

/// glue so that run_merge can be generic over the two map types that have incr_merge
pub trait MergeOp<M> {
    fn merge(l: &incremental::Incr<M>, r: &incremental::Incr<M>, calls: Rc<RefCell<Vec<i64>>>) -> incremental::Incr<M>;
}
impl MergeOp<B> for incremental::Incr<B> {
    fn merge(l: &incremental::Incr<B>, r: &incremental::Incr<B>, calls: Rc<RefCell<Vec<i64>>>) -> incremental::Incr<B> {
        l.incr_merge(r, move |k: &i64, m| {
            calls.borrow_mut().push(*k);
            merge_fn(*k, m)
        })
    }
}
impl MergeOp<OrdMap<i64, i64>> for incremental::Incr<OrdMap<i64, i64>> {
    fn merge(l: &incremental::Incr<OrdMap<i64, i64>>, r: &incremental::Incr<OrdMap<i64, i64>>, calls: Rc<RefCell<Vec<i64>>>) -> incremental::Incr<OrdMap<i64, i64>> {
        l.incr_merge(r, move |k: &i64, m| {
            calls.borrow_mut().push(*k);
            merge_fn(*k, m)
        })
    }
}

/// random larger maps; OrdMaps big enough to span several tree nodes and to share structure
pub fn run_random(seed: u64, count: u64) -> J {
    let mut violations = vec![];
    let mut nontrivial = 0u64;
    let mut evals = 0u64;
    for i in 0..count {
        let mut rng = Rng::new(mix(seed, i));
        let big = rng.chance(1, 3);
        let nkeys = if big { 200 + rng.below(400) } else { 1 + rng.below(40) };
        let mut a = B::new();
        for _ in 0..nkeys {
            a.insert(rng.range(0, nkeys as i64 * 2), rng.range(0, 3));
        }
        // b: an edited copy (shares structure in the OrdMap case)
        let oa: OrdMap<i64, i64> = TestMap::from_b(&a);
        let mut ob = oa.clone();
        let mut b = a.clone();
        for _ in 0..rng.below(12) {
            let k = rng.range(0, nkeys as i64 * 2);
            if rng.chance(1, 2) {
                let v = rng.range(0, 3);
                b.insert(k, v);
                ob.insert(k, v);
            } else {
                b.remove(&k);
                ob.remove(&k);
            }
        }
        let r = reference(&a, &b);
        if !r.is_empty() {
            nontrivial += 1;
        }
        let got_shared: Vec<(i64, D)> = oa.symmetric_fold(&ob, vec![], |mut acc, (k, d)| {
            acc.push((*k, match d {
                DiffElement::Left(x) => D::Left(*x),
                DiffElement::Right(y) => D::Right(*y),
                DiffElement::Unequal(x, y) => D::Unequal(*x, *y),
            }));
            acc
        });
        for (name, got) in [
            ("BTreeMap", observed::<B>(&a, &b)),
            ("Rc<BTreeMap>", observed::<Rc<B>>(&a, &b)),
            ("OrdMap", observed::<OrdMap<i64, i64>>(&a, &b)),
            ("OrdMap(shared structure)", got_shared),
        ] {
            evals += 1;
            if got != r && violations.len() < 10 {
                violations.push(J::obj(vec![
                    ("property", J::s("C18")),
                    ("message", J::s(format!("symmetric_fold<{name}> on random maps of {} and {} entries visited {:?}, expected {:?}", a.len(), b.len(), got.iter().take(8).collect::<Vec<_>>(), r.iter().take(8).collect::<Vec<_>>()))),
                    ("argv", J::Arr(vec![J::s("symdiff"), J::s("random"), J::s(seed.to_string()), J::s(count.to_string())])),
                ]));
            }
        }
    }
    J::obj(vec![
        ("workload", J::s("symdiff-random")),
        ("evaluations", J::Int(evals as i64)),
        ("nontrivial", J::Int(nontrivial as i64)),
        ("stats", J::obj(vec![("random_pairs", J::Int(count as i64))])),
        ("violations", J::Arr(violations)),
        ("samples", J::Arr(vec![])),
    ])
}

// ------------------------------------------------------------------------------------------
// values that are not equal to themselves (f64 NaN): "present in both with unequal values"
// ------------------------------------------------------------------------------------------

type FB = std::collections::BTreeMap<i64, f64>;

fn nth_fmap(mut i: usize, nkeys: usize) -> FB {
    let mut m = FB::new();
    for k in 0..nkeys {
        match i % 4 {
            1 => {
                m.insert(k as i64, 1.0);
            }
            2 => {
                m.insert(k as i64, f64::NAN);
            }
            3 => {
                m.insert(k as i64, 2.5);
            }
            _ => {}
        }
        i /= 4;
    }
    m
}

#[derive(Debug, Clone)]
enum FD {
    Left(f64),
    Right(f64),
    Unequal(f64, f64),
}
fn same(a: f64, b: f64) -> bool {
    a.to_bits() == b.to_bits() || (a.is_nan() && b.is_nan())
}
fn fd_eq(a: &[(i64, FD)], b: &[(i64, FD)]) -> bool {
    a.len() == b.len()
        && a.iter().zip(b).all(|((k1, d1), (k2, d2))| {
            k1 == k2
                && match (d1, d2) {
                    (FD::Left(x), FD::Left(y)) | (FD::Right(x), FD::Right(y)) => same(*x, *y),
                    (FD::Unequal(a1, b1), FD::Unequal(a2, b2)) => same(*a1, *a2) && same(*b1, *b2),
                    _ => false,
                }
        })
}
fn freference(a: &FB, b: &FB) -> Vec<(i64, FD)> {
    let keys: BTreeSet<i64> = a.keys().chain(b.keys()).copied().collect();
    let mut out = vec![];
    for k in keys {
        match (a.get(&k), b.get(&k)) {
            (Some(x), None) => out.push((k, FD::Left(*x))),
            (None, Some(y)) => out.push((k, FD::Right(*y))),
            // unequal by the value type's own equality: NaN differs from everything, itself included
            (Some(x), Some(y)) if x != y => out.push((k, FD::Unequal(*x, *y))),
            _ => {}
        }
    }
    out
}
fn fobserved<M: SymmetricFoldMap<i64, f64>>(a: &M, b: &M) -> Vec<(i64, FD)> {
    a.symmetric_fold(b, vec![], |mut acc, (k, d)| {
        acc.push((
            *k,
            match d {
                DiffElement::Left(x) => FD::Left(*x),
                DiffElement::Right(y) => FD::Right(*y),
                DiffElement::Unequal(x, y) => FD::Unequal(*x, *y),
            },
        ));
        acc
    })
}

pub fn run_symfold_float() -> J {
    let n = 64usize; // 3 keys x {absent, 1.0, NaN, 2.5}
    let (mut evals, mut nontrivial) = (0u64, 0u64);
    let mut violations = vec![];
    for i in 0..n {
        for j in 0..n {
            let (a, b) = (nth_fmap(i, 3), nth_fmap(j, 3));
            let r = freference(&a, &b);
            let oa: OrdMap<i64, f64> = a.iter().map(|(k, v)| (*k, *v)).collect();
            let ob: OrdMap<i64, f64> = b.iter().map(|(k, v)| (*k, *v)).collect();
            for (name, got) in [
                ("BTreeMap<f64>", fobserved(&a, &b)),
                ("Rc<BTreeMap<f64>>", fobserved(&Rc::new(a.clone()), &Rc::new(b.clone()))),
                ("OrdMap<f64>", fobserved(&oa, &ob)),
            ] {
                evals += 1;
                if r.iter().any(|(_, d)| matches!(d, FD::Unequal(x, y) if x.is_nan() || y.is_nan())) {
                    nontrivial += 1;
                }
                if !fd_eq(&got, &r) && violations.len() < 10 {
                    violations.push(J::obj(vec![
                        ("property", J::s("C18")),
                        ("message", J::s(format!("symmetric_fold<{name}>({a:?}, {b:?}) visited {got:?}, expected {r:?}"))),
                        ("argv", J::Arr(vec![J::s("symdiff"), J::s("fold-float")])),
                    ]));
                }
            }
        }
    }
    J::obj(vec![
        ("workload", J::s("symdiff-fold-float")),
        ("evaluations", J::Int(evals as i64)),
        ("nontrivial", J::Int(nontrivial as i64)),
        ("stats", J::obj(vec![("pairs_of_float_maps_enumerated", J::Int((n * n) as i64))])),
        ("violations", J::Arr(violations)),
        ("samples", J::Arr(vec![])),
    ])
}
