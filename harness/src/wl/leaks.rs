//! C12 (directed part): shapes with hand-broken reference cycles — vars of vars, binds returning
//! their own input, closures owning var handles, expert nodes — dropped in *every* permutation of
//! their handles, with a stabilise inserted at every possible position. Every value placed in the
//! graph carries a token, so "released" is observable without looking at addresses.

use crate::json::J;
use incremental::expert::Node as ExpertNode;
use incremental::{Incr, IncrState, Observer, Var, WeakIncr};
use std::cell::Cell;
use std::panic::{catch_unwind, AssertUnwindSafe};
use std::rc::Rc;

#[derive(Debug)]
struct Tok(Rc<Cell<isize>>);
impl Tok {
    fn new(c: &Rc<Cell<isize>>) -> Tok {
        c.set(c.get() + 1);
        Tok(c.clone())
    }
}
impl Clone for Tok {
    fn clone(&self) -> Self {
        Tok::new(&self.0)
    }
}
impl Drop for Tok {
    fn drop(&mut self) {
        self.0.set(self.0.get() - 1);
    }
}
impl PartialEq for Tok {
    fn eq(&self, _: &Self) -> bool {
        true
    }
}

/// a value that is counted while alive
#[derive(Debug, Clone, PartialEq)]
struct V(i64, Tok);

enum H {
    State(IncrState),
    VarV(Var<V>),
    VarVar(Var<Var<V>>),
    VarVarVar(Var<Var<Var<V>>>),
    Node(Incr<V>),
    NodeI(Incr<i64>),
    Obs(Observer<V>),
    ObsI(Observer<i64>),
    ObsVar(Observer<Var<V>>),
    Expert(ExpertNode<i64>),
    VarI(Var<i64>),
    Any(Box<dyn std::any::Any>),
}

pub const SHAPES: [&str; 10] = ["var_var", "var_var_var", "bind_own_input", "self_map2", "closure_owns_var", "expert", "var_var_obs", "memo_in_bind", "mapi_btree", "mapi_ordmap"];

struct Built {
    handles: Vec<(&'static str, H)>,
    probes: Vec<(&'static str, Box<dyn Fn() -> usize>)>,
}

fn probe<T: 'static>(w: WeakIncr<T>) -> Box<dyn Fn() -> usize> {
    Box::new(move || w.strong_count())
}

fn build(shape: &str, c: &Rc<Cell<isize>>) -> Built {
    let st = IncrState::new();
    let v = |x: i64| V(x, Tok::new(c));
    let mut handles: Vec<(&'static str, H)> = vec![];
    let mut probes: Vec<(&'static str, Box<dyn Fn() -> usize>)> = vec![];
    match shape {
        "var_var" | "var_var_obs" => {
            let inner = st.var(v(1));
            let outer = st.var(inner.clone());
            let flat = outer.bind(|i| i.watch());
            probes.push(("inner.watch", probe(inner.watch().weak())));
            probes.push(("outer.watch", probe(outer.watch().weak())));
            probes.push(("bind", probe(flat.weak())));
            if shape == "var_var_obs" {
                handles.push(("obs(outer)", H::ObsVar(outer.observe())));
            }
            handles.push(("obs(bind)", H::Obs(flat.observe())));
            handles.push(("bind", H::Node(flat)));
            handles.push(("inner", H::VarV(inner)));
            handles.push(("outer", H::VarVar(outer)));
        }
        "var_var_var" => {
            let a = st.var(v(1));
            let b = st.var(a.clone());
            let cc = st.var(b.clone());
            let flat = cc.bind(|b| b.bind(|a| a.watch()));
            probes.push(("a.watch", probe(a.watch().weak())));
            probes.push(("b.watch", probe(b.watch().weak())));
            probes.push(("c.watch", probe(cc.watch().weak())));
            handles.push(("obs", H::Obs(flat.observe())));
            handles.push(("a", H::VarV(a)));
            handles.push(("b", H::VarVar(b)));
            handles.push(("c", H::VarVarVar(cc)));
        }
        "bind_own_input" => {
            let x = st.var(v(1));
            let w = x.watch();
            let w2 = w.clone();
            let b = w.bind(move |_| w2.clone());
            probes.push(("x.watch", probe(x.watch().weak())));
            probes.push(("bind", probe(b.weak())));
            handles.push(("obs", H::Obs(b.observe())));
            handles.push(("bind", H::Node(b)));
            handles.push(("x", H::VarV(x)));
        }
        "self_map2" => {
            let x = st.var(v(2));
            let t = Tok::new(c);
            let m = x.map2(&x, move |a, b| {
                let _ = &t;
                V(a.0 + b.0, a.1.clone())
            });
            probes.push(("x.watch", probe(x.watch().weak())));
            probes.push(("map2", probe(m.weak())));
            handles.push(("obs", H::Obs(m.observe())));
            handles.push(("map2", H::Node(m)));
            handles.push(("x", H::VarV(x)));
        }
        "closure_owns_var" => {
            let x = st.var(v(3));
            let trigger = st.var(0i64);
            let x2 = x.clone();
            let m = trigger.map(move |t| x2.get().0 + t);
            let k = x.map(|a| a.clone());
            probes.push(("x.watch", probe(x.watch().weak())));
            probes.push(("map", probe(m.weak())));
            handles.push(("obs(map)", H::ObsI(m.observe())));
            handles.push(("obs(k)", H::Obs(k.observe())));
            handles.push(("map", H::NodeI(m)));
            handles.push(("x", H::VarV(x)));
        }
        "expert" => {
            let x = st.var(5i64);
            let y = st.var(6i64);
            let t = Tok::new(c);
            let cell = Rc::new(Cell::new(0i64));
            let (c1, c2) = (cell.clone(), cell.clone());
            let e = ExpertNode::<i64>::new(&st.weak(), move || {
                let _ = &t;
                c1.get()
            });
            let t2 = Tok::new(c);
            e.add_dependency_with(&x, move |v| {
                let _ = &t2;
                c2.set(*v)
            });
            e.add_dependency(&y);
            probes.push(("expert", probe(e.watch().weak())));
            probes.push(("x.watch", probe(x.watch().weak())));
            handles.push(("obs", H::ObsI(e.watch().observe())));
            handles.push(("watch", H::NodeI(e.watch())));
            handles.push(("expert", H::Expert(e)));
        }
        "memo_in_bind" => {
            // a memoised function moved into a bind closure: the usual way to use one
            let x = st.var(v(1));
            let sel = st.var(0i64);
            let mut memo = st.weak_memoize_fn({
                let xw = x.watch();
                move |k: i64| xw.map(move |a| V(a.0 + k, a.1.clone()))
            });
            let b = sel.bind(move |s| memo(*s));
            probes.push(("bind", probe(b.weak())));
            probes.push(("x.watch", probe(x.watch().weak())));
            handles.push(("obs(bind)", H::Obs(b.observe())));
            handles.push(("bind", H::Node(b)));
            handles.push(("sel", H::VarI(sel)));
            handles.push(("x", H::VarV(x)));
        }
        "mapi_btree" | "mapi_ordmap" => {
            // per-key graphs of incr_mapi_ / incr_filter_mapi_: the user function and what it
            // captures (a token per key) must go when the operator goes
            use incremental_map::prelude::*;
            let outer = st.var(1i64);
            let c2 = c.clone();
            let ow = outer.watch();
            let per_key = move |_k: &i64, v: Incr<i64>| {
                let t = Tok::new(&c2);
                v.map2(&ow, move |x, o| {
                    let _ = &t;
                    x + o
                })
            };
            let mut per_key2 = per_key.clone();
            if shape == "mapi_btree" {
                let input = st.var(std::collections::BTreeMap::from([(1i64, 10i64), (2, 20), (3, 30)]));
                let a = input.incr_mapi_(per_key);
                let b = input.incr_filter_mapi_(move |k, v| per_key2(k, v).map(|x| if x % 2 == 0 { Some(*x) } else { None }));
                probes.push(("mapi", probe(a.weak())));
                probes.push(("filter_mapi", probe(b.weak())));
                probes.push(("input", probe(input.watch().weak())));
                handles.push(("obs(mapi)", H::Any(Box::new(a.observe()))));
                handles.push(("obs(filter_mapi)", H::Any(Box::new(b.observe()))));
                handles.push(("mapi", H::Any(Box::new(a))));
                handles.push(("input", H::Any(Box::new(input))));
                drop(b);
            } else {
                let input = st.var(im_rc::OrdMap::from(vec![(1i64, 10i64), (2, 20), (3, 30)]));
                let a = input.incr_mapi_(per_key);
                let b = input.incr_filter_mapi_(move |k, v| per_key2(k, v).map(|x| if x % 2 == 0 { Some(*x) } else { None }));
                probes.push(("mapi", probe(a.weak())));
                probes.push(("filter_mapi", probe(b.weak())));
                probes.push(("input", probe(input.watch().weak())));
                handles.push(("obs(mapi)", H::Any(Box::new(a.observe()))));
                handles.push(("obs(filter_mapi)", H::Any(Box::new(b.observe()))));
                handles.push(("mapi", H::Any(Box::new(a))));
                handles.push(("input", H::Any(Box::new(input))));
                drop(b);
            }
            handles.push(("outer", H::VarI(outer)));
        }
        _ => panic!("unknown shape"),
    }
    handles.push(("state", H::State(st)));
    Built { handles, probes }
}

fn permutations(n: usize) -> Vec<Vec<usize>> {
    fn rec(cur: &mut Vec<usize>, used: &mut Vec<bool>, n: usize, out: &mut Vec<Vec<usize>>) {
        if cur.len() == n {
            out.push(cur.clone());
            return;
        }
        for i in 0..n {
            if !used[i] {
                used[i] = true;
                cur.push(i);
                rec(cur, used, n, out);
                cur.pop();
                used[i] = false;
            }
        }
    }
    let mut out = vec![];
    rec(&mut vec![], &mut vec![false; n], n, &mut out);
    out
}

/// one case: `shape`, drop order `perm`, an initial stabilise or not, a stabilise after the
/// `stab_after`-th drop (None = never)
fn case(shape: &str, perm: &[usize], initial: bool, stab_after: Option<usize>) -> Result<(), String> {
    let c = Rc::new(Cell::new(0isize));
    let r = catch_unwind(AssertUnwindSafe(|| {
        let b = build(shape, &c);
        let st = b.handles.iter().find_map(|(_, h)| if let H::State(s) = h { Some(s.clone()) } else { None }).unwrap();
        if initial {
            st.stabilise();
        }
        let n = b.handles.len();
        let mut slots: Vec<Option<(&'static str, H)>> = b.handles.into_iter().map(Some).collect();
        let mut state_dropped = false;
        let mut st = Some(st);
        for (i, p) in perm.iter().enumerate() {
            let (name, h) = slots[*p].take().unwrap();
            if name == "state" {
                state_dropped = true;
                st = None;
            }
            drop(h);
            if stab_after == Some(i) && !state_dropped {
                st.as_ref().unwrap().stabilise();
            }
        }
        let _ = n;
        // every user handle except our extra clone of the state is gone now
        if let Some(s) = st.take() {
            // all handles to the graph are dropped: one stabilise must release everything
            s.stabilise();
            let alive: Vec<&str> = b.probes.iter().filter(|(_, p)| p() > 0).map(|(n, _)| *n).collect();
            if !alive.is_empty() || c.get() != 0 {
                return Err(format!("after dropping every handle and one stabilise: nodes still allocated {:?}, {} captured values alive", alive, c.get()));
            }
            drop(s);
        }
        let alive: Vec<&str> = b.probes.iter().filter(|(_, p)| p() > 0).map(|(n, _)| *n).collect();
        if !alive.is_empty() {
            return Err(format!("after dropping the state and every handle these nodes are still allocated: {:?}", alive));
        }
        Ok(())
    }));
    match r {
        Ok(Ok(())) => {
            if c.get() != 0 {
                Err(format!("{} values captured by the graph were never released", c.get()))
            } else {
                Ok(())
            }
        }
        Ok(Err(m)) => Err(m),
        Err(e) => Err(format!("panic: {}", crate::panic_message(e))),
    }
}

pub fn run(shape: &str) -> J {
    let c = Rc::new(Cell::new(0isize));
    let n = build(shape, &c).handles.len();
    let perms = permutations(n);
    let (mut evals, mut nontrivial) = (0u64, 0u64);
    let mut violations = vec![];
    let mut sample = vec![];
    for perm in &perms {
        for initial in [true, false] {
            let mut positions: Vec<Option<usize>> = vec![None];
            positions.extend((0..n - 1).map(Some));
            for stab in positions {
                evals += 1;
                if initial && stab.is_some() {
                    nontrivial += 1;
                }
                if let Err(m) = case(shape, perm, initial, stab) {
                    if violations.len() < 6 {
                        violations.push(J::obj(vec![
                            ("property", J::s("C12")),
                            ("message", J::s(format!("shape {shape}, drop order {:?}, initial stabilise {initial}, stabilise after drop #{:?}: {m}", perm, stab))),
                            ("argv", J::Arr(vec![J::s("leaks"), J::s(shape)])),
                        ]));
                    }
                } else if sample.is_empty() && initial && stab.is_some() {
                    sample.push(J::s(format!("shape {shape}, drop order {:?} (indices into its handle list), stabilise after drop #{:?}", perm, stab)));
                }
            }
        }
    }
    J::obj(vec![
        ("workload", J::s(format!("leaks-{shape}"))),
        ("evaluations", J::Int(evals as i64)),
        ("nontrivial", J::Int(nontrivial as i64)),
        ("stats", J::obj(vec![("drop_permutation_cases", J::Int(evals as i64))])),
        ("violations", J::Arr(violations)),
        ("samples", J::Arr(sample)),
    ])
}
