//! Nodes of an *inner* bind scope that stay in use on their own: an outer bind B1 (always observed)
//! builds, in its closure, an inner bind B2 whose closure builds `R = x.map(|x| x + v1 + v2)` with
//! both bind inputs captured. B2 and R escape through a side channel. B2 is observed and unobserved
//! at random (or is B1's result), R is observed while B2 is necessary (K1) and then kept while B2
//! comes and goes; the three inputs are written at random. Touches C03 (no function of a node made
//! by a superseded run of B1 -- or of a B2 that was necessary throughout the round -- runs any
//! more; such nodes read `ObservingInvalid`), C02 (R runs once, on the final `x`), C01 (values),
//! C04 (no panic), C11 (audit after every stabilise). Defect #26 lives here.

use crate::json::J;
use crate::rng::{mix, Rng};
use incremental::{Incr, IncrState, Observer, ObserverError};
use std::cell::{Cell, RefCell};
use std::panic::{catch_unwind, AssertUnwindSafe};
use std::rc::Rc;

pub struct Outcome {
    pub nontrivial: bool,
    pub violation: Option<(String, String)>,
    pub actions: Vec<String>,
    pub reads: u64,
}

#[derive(Clone, Debug, PartialEq)]
enum Ev {
    B1Run { g1: u64, v1: i64 },
    B2Run { g1: u64, g2: u64, v2: i64 },
    R { g1: u64, g2: u64, x: i64 },
    Other { l: i64 },
}

struct RNode {
    g1: u64,
    g2: u64,
    v1: i64,
    v2: i64,
    node: Incr<i64>,
}

struct B2 {
    g1: u64,
    node: Incr<i64>,
}

pub fn run_history(seed: u64) -> Outcome {
    let mut actions = vec![];
    let mut reads = 0u64;
    let mut nontrivial = false;
    let r = catch_unwind(AssertUnwindSafe(|| inner(seed, &mut actions, &mut reads, &mut nontrivial)));
    let violation = match r {
        Ok(Ok(())) => None,
        Ok(Err(m)) => Some(m),
        Err(e) => Some(("C04".into(), format!("panic: {}", crate::panic_message(e)))),
    };
    Outcome { nontrivial, violation, actions, reads }
}

fn inner(seed: u64, actions: &mut Vec<String>, reads: &mut u64, nontrivial: &mut bool) -> Result<(), (String, String)> {
    let mut rng = Rng::new(seed ^ 0x9e57ed);
    let st = IncrState::new();
    let (l, y, x) = (st.var(0i64), st.var(0i64), st.var(0i64));
    let log: Rc<RefCell<Vec<Ev>>> = Rc::new(RefCell::new(vec![]));
    // an earlier dependant of l: B1's lhs-change node is then not the dependant that is recomputed
    // directly when l changes
    // B1's input is `l` itself, or a switch between a short and a tall route to `l` (same value):
    // flipping it makes B1's input taller or shorter without B1 re-running (defects #15, #24, #30)
    let grow = st.var(false);
    let switching = rng.chance(1, 2);
    let l_in: Incr<i64> = if switching {
        let short = l.watch();
        let mut tall = l.map(|v| *v);
        for _ in 0..2 + rng.below(4) {
            tall = tall.map(|v| *v);
        }
        grow.bind(move |g| if *g { tall.clone() } else { short.clone() })
    } else {
        l.watch()
    };
    let other = if rng.chance(1, 2) {
        let lg = log.clone();
        let o = l_in.map(move |v| {
            lg.borrow_mut().push(Ev::Other { l: *v });
            *v
        });
        let obs = o.observe();
        st.stabilise();
        Some((o, obs))
    } else {
        None
    };
    // B1 hands back B2 itself (B2 is then necessary whenever B1 is) or a constant
    let ret_b2 = rng.chance(1, 2);
    // the chain between x and R: R is x's first dependant or not
    let x_first = rng.chance(1, 2);
    let _x_other = if x_first { None } else { Some(x.map(|v| v + 1).observe()) };
    let rs: Rc<RefCell<Vec<RNode>>> = Rc::new(RefCell::new(vec![]));
    let b2s: Rc<RefCell<Vec<B2>>> = Rc::new(RefCell::new(vec![]));
    let (g1c, g2c) = (Rc::new(Cell::new(0u64)), Rc::new(Cell::new(0u64)));
    // every closure owns a clone of this token: after the teardown nothing may hold one (C12)
    let token: Rc<()> = Rc::new(());
    let b1: Incr<i64> = {
        let (yw, xw, rs, b2s, log, g1c, g2c, st2, tok) = (y.watch(), x.watch(), rs.clone(), b2s.clone(), log.clone(), g1c.clone(), g2c.clone(), st.weak(), token.clone());
        l_in.bind(move |&v1| {
            let tok = tok.clone();
            let g1 = g1c.get() + 1;
            g1c.set(g1);
            log.borrow_mut().push(Ev::B1Run { g1, v1 });
            let (xw, rs, log2, g2c) = (xw.clone(), rs.clone(), log.clone(), g2c.clone());
            let b2 = yw.bind(move |&v2| {
                let g2 = g2c.get() + 1;
                g2c.set(g2);
                log2.borrow_mut().push(Ev::B2Run { g1, g2, v2 });
                let (log3, tok2) = (log2.clone(), tok.clone());
                let r = xw.map(move |&x| {
                    let _ = &tok2;
                    log3.borrow_mut().push(Ev::R { g1, g2, x });
                    x + v1 + v2
                });
                rs.borrow_mut().push(RNode { g1, g2, v1, v2, node: r.clone() });
                r
            });
            b2s.borrow_mut().push(B2 { g1, node: b2.clone() });
            if ret_b2 { b2 } else { st2.constant(0i64) }
        })
    };
    let b1_obs = b1.observe();
    let (mut lv, mut yv, mut xv) = (0i64, 0i64, 0i64);
    let mut b2_obs: Option<(u64, Observer<i64>, bool)> = None; // (g1 of that B2, observer, been through a stabilise)
    let mut r_obs: Vec<(usize, Observer<i64>, bool)> = vec![]; // (index into rs, observer, been through a stabilise)
    // latest run of each B2 (by g1) as of the last stabilise, and whether that B2 was necessary then
    let mut latest_g2: std::collections::HashMap<u64, u64> = Default::default();
    let mut b2_linked_g1: Option<u64> = None;
    let mut cur_g1 = 0u64;
    let n_actions = 20 + rng.below(40);
    for step in 0..n_actions {
        match if step == 0 { 9 } else { rng.below(13) } {
            12 => {
                if switching {
                    let g = !grow.get();
                    grow.set(g);
                    actions.push(format!("B1's input takes the {} route", if g { "tall" } else { "short" }));
                }
            }
            0 | 1 => {
                // observe the current B2 (B1 is necessary: it has been observed since the start)
                if b2_obs.is_none() && cur_g1 > 0 {
                    let b = b2s.borrow().iter().rev().find(|b| b.g1 == cur_g1).map(|b| b.node.clone());
                    if let Some(b) = b {
                        b2_obs = Some((cur_g1, b.observe(), false));
                        actions.push(format!("observe B2(run {cur_g1} of B1)"));
                    }
                }
            }
            2 => {
                if let Some((g, _, _)) = b2_obs.take() {
                    actions.push(format!("unobserve B2(run {g} of B1)"));
                }
            }
            3 | 4 => {
                // observe R of B2's latest run: only while that B2 is necessary, and was at the last stabilise (K1)
                let b2_now = ret_b2 || b2_obs.as_ref().map_or(false, |(g, _, seen)| *g == cur_g1 && *seen);
                if b2_now && b2_linked_g1 == Some(cur_g1) {
                    if let Some(g2) = latest_g2.get(&cur_g1) {
                        let idx = rs.borrow().iter().position(|r| r.g1 == cur_g1 && r.g2 == *g2);
                        if let Some(idx) = idx {
                            let o = rs.borrow()[idx].node.observe();
                            r_obs.push((idx, o, false));
                            actions.push(format!("observe R(run {cur_g1} of B1, run {g2} of B2)"));
                        }
                    }
                }
            }
            5 => {
                if !r_obs.is_empty() && rng.chance(1, 2) {
                    let i = rng.below(r_obs.len());
                    let (idx, _, _) = r_obs.remove(i);
                    actions.push(format!("unobserve R#{idx}"));
                }
            }
            6 => {
                lv = rng.range(0, 3);
                l.set(lv);
                actions.push(format!("l={lv}"));
            }
            7 => {
                yv = rng.range(0, 3);
                y.set(yv);
                actions.push(format!("y={yv}"));
            }
            8 => {
                xv = rng.range(0, 3);
                x.set(xv);
                actions.push(format!("x={xv}"));
            }
            _ => {
                let g1_before = cur_g1;
                let b2_necessary_at_start = b2_linked_g1 == Some(cur_g1) && (ret_b2 || b2_obs.as_ref().map_or(false, |(g, _, seen)| *g == cur_g1 && *seen));
                log.borrow_mut().clear();
                st.stabilise();
                actions.push("stabilise".into());
                let events = log.borrow().clone();
                for e in &events {
                    match e {
                        Ev::B1Run { g1, .. } => cur_g1 = *g1,
                        Ev::B2Run { g1, g2, .. } => {
                            latest_g2.insert(*g1, *g2);
                        }
                        _ => {}
                    }
                }
                let b1_reran = cur_g1 != g1_before;
                // B1 is always necessary: it re-runs iff its input differs from what its latest run saw
                let last_v1 = events.iter().rev().find_map(|e| if let Ev::B1Run { v1, .. } = e { Some(*v1) } else { None });
                if b1_reran && last_v1 != Some(lv) {
                    return Err(("C02".into(), format!("B1's closure ran on {:?}, its input's final value is {lv}", last_v1)));
                }
                if events.iter().filter(|e| matches!(e, Ev::B1Run { .. })).count() > 1 {
                    return Err(("C02".into(), format!("B1's closure ran more than once in one stabilise: {:?}", events)));
                }
                let b2_necessary_at_end = ret_b2 || b2_obs.as_ref().map_or(false, |(g, _, _)| *g == cur_g1);
                let b2_reran = events.iter().any(|e| matches!(e, Ev::B2Run { g1, .. } if *g1 == cur_g1));
                let final_g2 = latest_g2.get(&cur_g1).copied();
                // ---- C03 / C02 over the invocations of R nodes ----
                let mut seen_r: Vec<(u64, u64)> = vec![];
                for e in &events {
                    let Ev::R { g1, g2, x } = e else { continue };
                    if *g1 != cur_g1 {
                        return Err(("C03".into(), format!(
                            "R built by run {g1} of the outer bind ran (with x={x}) in a stabilise in which that bind re-ran / after it had re-run (now at run {cur_g1}): stale captured input; events {:?}",
                            events
                        )));
                    }
                    if !b1_reran && b2_necessary_at_start && b2_necessary_at_end && b2_reran && Some(*g2) != final_g2 {
                        return Err(("C03".into(), format!(
                            "R built by run {g2} of the inner bind ran (with x={x}) in the stabilise in which that bind, necessary throughout, re-ran (now at run {:?}); events {:?}",
                            final_g2, events
                        )));
                    }
                    if seen_r.contains(&(*g1, *g2)) {
                        return Err(("C02".into(), format!("R(run {g1}, run {g2}) ran twice in one stabilise: {:?}", events)));
                    }
                    seen_r.push((*g1, *g2));
                    if *x != xv {
                        return Err(("C02".into(), format!("R(run {g1}, run {g2}) ran on x={x}, the final value is {xv}")));
                    }
                }
                if b1_reran && (b2_obs.is_some() || !r_obs.is_empty()) {
                    *nontrivial = true;
                }
                // ---- values ----
                let got = b1_obs.try_get_value();
                *reads += 1;
                let want = if ret_b2 { xv + lv + yv } else { 0 };
                if got != Ok(want) {
                    return Err(("C01".into(), format!("the outer bind reads {:?}, expected {want} (l={lv} y={yv} x={xv}, B1 hands back {})", got, if ret_b2 { "B2" } else { "a constant" })));
                }
                if let Some((g, o, seen)) = b2_obs.as_mut() {
                    *reads += 1;
                    let got = o.try_get_value();
                    let want = if *g == cur_g1 { Ok(xv + lv + yv) } else { Err(ObserverError::ObservingInvalid) };
                    if got != want {
                        return Err((if want.is_err() { "C03" } else { "C01" }.into(), format!("observer of B2 (built by run {g} of B1, now at run {cur_g1}) reads {:?}, expected {:?}", got, want)));
                    }
                    *seen = true;
                }
                if b2_obs.as_ref().map_or(false, |(g, _, _)| *g != cur_g1) {
                    // an observer of a dead B2 has been checked once; it goes
                    b2_obs = None;
                }
                for (idx, o, seen) in r_obs.iter_mut() {
                    *reads += 1;
                    let r = &rs.borrow()[*idx];
                    let valid = r.g1 == cur_g1 && latest_g2.get(&r.g1) == Some(&r.g2);
                    let want = if valid { Ok(xv + r.v1 + r.v2) } else { Err(ObserverError::ObservingInvalid) };
                    let got = o.try_get_value();
                    if got != want {
                        return Err((if want.is_err() { "C03" } else { "C01" }.into(), format!(
                            "observer of R (run {} of B1 with l={}, run {} of B2 with y={}; B1 now at run {cur_g1}, that B2 at run {:?}) reads {:?}, expected {:?}",
                            r.g1, r.v1, r.g2, r.v2, latest_g2.get(&r.g1), got, want
                        )));
                    }
                    *seen = true;
                }
                // a necessary B2 has seen the current y
                if b2_necessary_at_end {
                    let v2 = rs.borrow().iter().rev().find(|r| r.g1 == cur_g1 && Some(r.g2) == final_g2).map(|r| r.v2);
                    if v2 != Some(yv) {
                        return Err(("C06".into(), format!("the inner bind is needed but its latest run saw y={:?}, the current value is {yv}", v2)));
                    }
                }
                b2_linked_g1 = if b2_necessary_at_end { Some(cur_g1) } else { None };
                #[cfg(cormacrelf_incremental_rs_verif)]
                {
                    let a = st.verif_audit();
                    if !a.is_empty() {
                        return Err(("C11".into(), format!("audit after stabilise: {}", a.join(" | "))));
                    }
                }
            }
        }
    }
    // teardown: observers first or last, at random
    let order = rng.below(3);
    let r = catch_unwind(AssertUnwindSafe(move || {
        match order {
            0 => {
                drop(r_obs);
                drop(b2_obs);
                st.stabilise();
                drop(b1_obs);
                st.stabilise();
            }
            1 => {
                drop(b1_obs);
                st.stabilise();
                drop(b2_obs);
                drop(r_obs);
                st.stabilise();
            }
            _ => {
                drop(st);
                drop(r_obs);
                drop(b1_obs);
                drop(b2_obs);
            }
        }
        drop(other);
        drop(_x_other);
        rs.borrow_mut().clear();
        b2s.borrow_mut().clear();
        drop(b1);
        drop(l_in);
        drop((l, y, x, grow));
    }));
    if let Err(e) = r {
        return Err(("C12".into(), format!("teardown panicked: {}", crate::panic_message(e))));
    }
    let held = Rc::strong_count(&token) - 1;
    if held != 0 {
        return Err(("C12".into(), format!("after every handle and the state were dropped (order {order}), {held} closure(s) of the nested binds are still alive")));
    }
    Ok(())
}

pub fn run(seed: u64, shard: u64, count: u64) -> J {
    let (mut nontrivial, mut reads) = (0u64, 0u64);
    let mut violations = vec![];
    let mut samples = vec![];
    for i in 0..count {
        let hseed = mix(mix(seed, shard), i);
        let o = run_history(hseed);
        reads += o.reads;
        if o.nontrivial {
            nontrivial += 1;
        }
        if samples.is_empty() && o.nontrivial {
            samples.push(J::Arr(o.actions.iter().map(|a| J::s(a.clone())).collect()));
        }
        if let Some((prop, m)) = o.violation {
            if violations.len() < 10 {
                violations.push(J::obj(vec![
                    ("property", J::s(prop)),
                    ("message", J::s(format!("nested scope workload: {m}; history: {:?}", o.actions))),
                    ("argv", J::Arr(vec![J::s("nested-one"), J::s(hseed.to_string())])),
                ]));
            }
        }
    }
    J::obj(vec![
        ("workload", J::s("nested")),
        ("evaluations", J::Int(count as i64)),
        ("nontrivial", J::Int(nontrivial as i64)),
        ("stats", J::obj(vec![("nested_scope_observer_reads_checked", J::Int(reads as i64))])),
        ("violations", J::Arr(violations)),
        ("samples", J::Arr(samples)),
    ])
}
