//! C19: the height limit is exact, misuse panics with a diagnostic instead of hanging.

use crate::json::J;
use incremental::{Incr, IncrState, Var};
use std::cell::{Cell, RefCell};
use std::panic::{catch_unwind, AssertUnwindSafe};
use std::rc::Rc;

#[derive(Clone, Copy, Debug, PartialEq)]
pub enum Shape {
    /// var -> s maps
    Chain,
    /// chain built inside a bind closure
    ChainInBind,
    /// nested binds, each contributing to the height
    BindTower,
    /// bind switching from a shallow to a deep pre-existing chain on the second stabilise
    DeepSwitch,
    /// map2 tree over chains of different lengths
    Tree,
    /// the same with the shorter chain as first input
    TreeRev,
}

pub const SHAPES: [Shape; 6] = [Shape::Chain, Shape::ChainInBind, Shape::BindTower, Shape::DeepSwitch, Shape::Tree, Shape::TreeRev];

struct Built {
    obs: incremental::Observer<i64>,
    sel: Option<Var<i64>>,
    base: Var<i64>,
    expected_first: i64,
    expected_second: i64,
}

fn chain_from(n: &Incr<i64>, len: usize) -> Incr<i64> {
    let mut n = n.clone();
    for _ in 0..len {
        n = n.map(|x| x + 1);
    }
    n
}

fn build(st: &IncrState, shape: Shape, s: usize) -> Built {
    let base = st.var(0i64);
    match shape {
        Shape::Chain => {
            let top = chain_from(&base.watch(), s);
            Built { obs: top.observe(), sel: None, base, expected_first: s as i64, expected_second: s as i64 }
        }
        Shape::ChainInBind => {
            let b = base.clone();
            let sel = st.var(0i64);
            let top = sel.bind(move |_| chain_from(&b.watch(), s));
            Built { obs: top.observe(), sel: None, base, expected_first: s as i64, expected_second: s as i64 }
        }
        Shape::BindTower => {
            let mut cur = base.watch();
            for _ in 0..s {
                let c = cur.clone();
                cur = cur.bind(move |_| c.map(|x| x + 1));
            }
            Built { obs: cur.observe(), sel: None, base, expected_first: s as i64, expected_second: s as i64 }
        }
        Shape::DeepSwitch => {
            let sel = st.var(0i64);
            let shallow = base.watch();
            let deep = chain_from(&base.watch(), s);
            let top = sel.bind(move |x| if *x == 0 { shallow.clone() } else { deep.clone() }).map(|x| x + 100);
            Built { obs: top.observe(), sel: Some(sel), base, expected_first: 100, expected_second: 100 + s as i64 }
        }
        Shape::Tree | Shape::TreeRev => {
            let a = chain_from(&base.watch(), s);
            let b = chain_from(&base.watch(), s / 2);
            let top = if shape == Shape::Tree { a.map2(&b, |x, y| x + y) } else { b.map2(&a, |x, y| x + y) }.map(|x| x + 1);
            let e = (s + s / 2 + 1) as i64;
            Built { obs: top.observe(), sel: None, base, expected_first: e, expected_second: e }
        }
    }
}

/// two stabilises; returns Ok(values) or Err((which stabilise, panic message))
fn drive(st: &IncrState, b: &Built) -> Result<(i64, i64), (u8, String)> {
    let r1 = catch_unwind(AssertUnwindSafe(|| st.stabilise()));
    if let Err(e) = r1 {
        return Err((1, crate::panic_message(e)));
    }
    let v1 = b.obs.try_get_value().map_err(|e| (1, format!("read failed: {e:?}")))?;
    if let Some(sel) = &b.sel {
        sel.set(1);
    }
    let r2 = catch_unwind(AssertUnwindSafe(|| st.stabilise()));
    if let Err(e) = r2 {
        return Err((2, crate::panic_message(e)));
    }
    let v2 = b.obs.try_get_value().map_err(|e| (2, format!("read failed: {e:?}")))?;
    Ok((v1, v2))
}

#[derive(Clone, Copy, Debug)]
pub enum Config {
    NewWithHeight,
    SetBeforeBuild,
    /// built under a larger limit N+grow, stabilised, then shrunk to N at a quiescent point
    ShrinkAfter(usize),
    /// created with a small limit, grown to N before building
    GrowBefore,
}

/// heights needed by (shape, s): measured on the engine itself under a huge limit
#[cfg(cormacrelf_incremental_rs_verif)]
pub fn measure(shape: Shape, s: usize) -> (i32, i32) {
    let st = IncrState::new_with_height(4096);
    let b = build(&st, shape, s);
    st.stabilise();
    let h1 = st.verif_max_height_in_use();
    if let Some(sel) = &b.sel {
        sel.set(1);
    }
    st.stabilise();
    let h2 = st.verif_max_height_in_use().max(h1);
    (h1, h2)
}
#[cfg(not(cormacrelf_incremental_rs_verif))]
pub fn measure(_shape: Shape, _s: usize) -> (i32, i32) {
    panic!("the height workload needs the verification hook")
}

#[allow(unused_variables)]
fn audit(st: &IncrState, when: &str) -> Result<(), String> {
    #[cfg(cormacrelf_incremental_rs_verif)]
    {
        let a = st.verif_audit();
        if !a.is_empty() {
            return Err(format!("audit {when}: {}", a.join(" | ")));
        }
    }
    Ok(())
}

pub struct Case {
    pub desc: String,
    pub verdict: Result<bool, String>,
}

/// One (shape, size, N, configuration) case. Ok(true) = judged and held.
pub fn height_case(shape: Shape, s: usize, n: usize, cfg: Config) -> Case {
    let (h1, h2) = measure(shape, s);
    let desc = format!("{shape:?} size={s} needs height {h1}/{h2}, limit N={n}, {cfg:?}");
    let verdict = (|| -> Result<bool, String> {
        match cfg {
            Config::NewWithHeight | Config::SetBeforeBuild | Config::GrowBefore => {
                let st = match cfg {
                    Config::NewWithHeight => IncrState::new_with_height(n),
                    Config::SetBeforeBuild => {
                        let st = IncrState::new();
                        st.set_max_height_allowed(n);
                        st
                    }
                    _ => {
                        let st = IncrState::new_with_height(2);
                        st.set_max_height_allowed(n);
                        st
                    }
                };
                let b = build(&st, shape, s);
                let r = drive(&st, &b);
                let expect_fail_at = if h1 as usize > n { Some(1) } else if h2 as usize > n { Some(2) } else { None };
                let out = match (&r, expect_fail_at) {
                    (Ok((v1, v2)), None) => {
                        if (*v1, *v2) == (b.expected_first, b.expected_second) {
                            Ok(true)
                        } else {
                            Err(format!("admissible graph computed ({v1},{v2}), expected ({},{})", b.expected_first, b.expected_second))
                        }
                    }
                    (Ok(_), Some(k)) => Err(format!("a graph of height {} was accepted under limit {n} (stabilise #{k} should have panicked)", if k == 1 { h1 } else { h2 })),
                    (Err((k, msg)), None) => Err(format!("an admissible graph (height {h2} <= {n}) was rejected at stabilise #{k}: {msg}")),
                    (Err((k, msg)), Some(k2)) => {
                        if *k != k2 {
                            Err(format!("panicked at stabilise #{k}, expected #{k2}: {msg}"))
                        } else if !msg.to_lowercase().contains("height") {
                            Err(format!("the panic for a too tall graph does not name the height limit: {msg}"))
                        } else {
                            Ok(true)
                        }
                    }
                };
                // the handles can still be dropped
                let d = catch_unwind(AssertUnwindSafe(move || {
                    drop(b);
                    drop(st);
                }));
                if let Err(e) = d {
                    return Err(format!("dropping the handles afterwards panicked: {}", crate::panic_message(e)));
                }
                out
            }
            Config::ShrinkAfter(grow) => {
                // only judged when N admits what is already in use
                if (h2 as usize) > n {
                    return Ok(false);
                }
                let st = IncrState::new_with_height(n + grow);
                let b = build(&st, shape, s);
                drive(&st, &b).map_err(|(k, m)| format!("under the larger limit stabilise #{k} panicked: {m}"))?;
                // a request below what is in use is refused; the refusal must leave the state usable:
                // both heaps still agree on one limit and the graph already built keeps working
                for below in [h2 as i64 - 2, h2 as i64 - 1, 0] {
                    if below < 0 || below >= h2 as i64 {
                        continue;
                    }
                    let r = catch_unwind(AssertUnwindSafe(|| st.set_max_height_allowed(below as usize)));
                    if r.is_ok() {
                        return Err(format!("set_max_height_allowed({below}) was accepted with height {h2} in use"));
                    }
                    audit(&st, &format!("after a refused set_max_height_allowed({below})"))?;
                    b.base.set(10 + below);
                    let r = catch_unwind(AssertUnwindSafe(|| st.stabilise()));
                    if let Err(e) = r {
                        return Err(format!(
                            "after a refused set_max_height_allowed({below}) the graph already in use (height {h2}) was rejected: {}",
                            crate::panic_message(e)
                        ));
                    }
                    let expected = {
                        let big = IncrState::new_with_height(4096);
                        let rb = build(&big, shape, s);
                        let _ = drive(&big, &rb);
                        rb.base.set(10 + below);
                        big.stabilise();
                        rb.obs.try_get_value()
                    };
                    if b.obs.try_get_value() != expected {
                        return Err(format!(
                            "after a refused set_max_height_allowed({below}) the observer reads {:?}, expected {:?}",
                            b.obs.try_get_value(),
                            expected
                        ));
                    }
                }
                b.base.set(0);
                let r = catch_unwind(AssertUnwindSafe(|| st.stabilise()));
                if let Err(e) = r {
                    return Err(format!("stabilise before shrinking panicked: {}", crate::panic_message(e)));
                }
                let r = catch_unwind(AssertUnwindSafe(|| st.set_max_height_allowed(n)));
                if let Err(e) = r {
                    return Err(format!("set_max_height_allowed({n}) with heights in use {h2} panicked: {}", crate::panic_message(e)));
                }
                // still works, and the new limit is exact: a chain reaching exactly N is fine, N+1 is not
                b.base.set(1);
                let r = catch_unwind(AssertUnwindSafe(|| st.stabilise()));
                if let Err(e) = r {
                    return Err(format!("stabilise after shrinking to {n} panicked: {}", crate::panic_message(e)));
                }
                // reconfiguring with a write already pending must not lose it (either direction)
                let reference = {
                    let big = IncrState::new_with_height(4096);
                    let rb = build(&big, shape, s);
                    let _ = drive(&big, &rb);
                    rb.base.set(2);
                    big.stabilise();
                    rb.obs.try_get_value()
                };
                b.base.set(2);
                let r = catch_unwind(AssertUnwindSafe(|| st.set_max_height_allowed(n + grow)));
                if let Err(e) = r {
                    return Err(format!("growing the limit back to {} with a write pending panicked: {}", n + grow, crate::panic_message(e)));
                }
                audit(&st, "after growing with a write pending")?;
                let r = catch_unwind(AssertUnwindSafe(|| st.set_max_height_allowed(n)));
                if let Err(e) = r {
                    return Err(format!("shrinking to {n} with a write pending panicked: {}", crate::panic_message(e)));
                }
                audit(&st, "after shrinking with a write pending")?;
                let r = catch_unwind(AssertUnwindSafe(|| st.stabilise()));
                if let Err(e) = r {
                    return Err(format!("stabilise after reconfiguring with a write pending panicked: {}", crate::panic_message(e)));
                }
                if b.obs.try_get_value() != reference {
                    return Err(format!(
                        "a write made before set_max_height_allowed({n}) was not propagated by the next stabilise: observer {:?}, expected {:?}",
                        b.obs.try_get_value(), reference
                    ));
                }
                if !st.is_stable() {
                    return Err("state not stable after stabilise following a reconfiguration".into());
                }
                let (h_chain_0, _) = measure(Shape::Chain, 0);
                let exact_len = n as i32 - h_chain_0;
                if exact_len >= 0 {
                    let fresh = st.var(0i64);
                    let ok = chain_from(&fresh.watch(), exact_len as usize).observe();
                    let r = catch_unwind(AssertUnwindSafe(|| st.stabilise()));
                    if let Err(e) = r {
                        return Err(format!("after shrinking to {n} a chain of height exactly {n} was rejected: {}", crate::panic_message(e)));
                    }
                    if ok.try_get_value() != Ok(exact_len as i64) {
                        return Err(format!("chain of height {n} computed {:?}", ok.try_get_value()));
                    }
                    let too_tall = chain_from(&fresh.watch(), exact_len as usize + 1).observe();
                    let r = catch_unwind(AssertUnwindSafe(|| st.stabilise()));
                    match r {
                        Ok(()) => return Err(format!("after shrinking to {n} a chain of height {} was accepted", n + 1)),
                        Err(e) => {
                            let m = crate::panic_message(e);
                            if !m.to_lowercase().contains("height") {
                                return Err(format!("panic does not name the height limit: {m}"));
                            }
                        }
                    }
                    let d = catch_unwind(AssertUnwindSafe(move || {
                        drop(too_tall);
                        drop(ok);
                        drop(fresh);
                    }));
                    if let Err(e) = d {
                        return Err(format!("dropping handles after the height panic panicked: {}", crate::panic_message(e)));
                    }
                }
                let d = catch_unwind(AssertUnwindSafe(move || {
                    drop(b);
                    drop(st);
                }));
                if let Err(e) = d {
                    return Err(format!("dropping the state afterwards panicked: {}", crate::panic_message(e)));
                }
                Ok(true)
            }
        }
    })();
    Case { desc, verdict }
}

/// A graph built on a node that was invalidated while it stayed observed: an invalid node has no
/// inputs any more, so what hangs off it is as tall as its scope allows (the bind's lhs-change node
/// plus one) plus the nodes stacked on it. `extra` maps are stacked; Ok(true) = judged and held.
pub fn invalid_base_case(n: usize, over: bool) -> Case {
    let (h0, _) = measure(Shape::Chain, 0);
    let desc = format!("graph on an invalidated bind-scope node, limit N={n}, {}", if over { "one level too tall" } else { "exactly N" });
    let verdict = (|| -> Result<bool, String> {
        // the node sits above the lhs-change node of its bind: at least h0 + 2
        let floor = h0 as usize + 2;
        if n < floor + 1 {
            return Ok(false);
        }
        let extra = n - floor + over as usize;
        // the bind's own right-hand side: as long as fits under the limit (measured on the engine)
        let build = |st: &IncrState, k: usize| {
            let sel = st.var(0i64);
            let x = st.var(100i64);
            let holder: Rc<RefCell<Option<Incr<i64>>>> = Rc::new(RefCell::new(None));
            let (h2, xw) = (holder.clone(), x.watch());
            let b = sel.bind(move |_| {
                let t = chain_from(&xw, k);
                h2.borrow_mut().replace(t.clone());
                t
            });
            (sel, x, holder, b)
        };
        let mut k = 1usize;
        #[cfg(cormacrelf_incremental_rs_verif)]
        {
            for cand in 1..=n {
                let big = IncrState::new_with_height(4096);
                let (_s, _x, _h, b) = build(&big, cand);
                let _o = b.observe();
                big.stabilise();
                if big.verif_max_height_in_use() as usize <= n {
                    k = cand;
                } else {
                    break;
                }
            }
        }
        let st = IncrState::new_with_height(n);
        let (sel, x, holder, b) = build(&st, k);
        let ob = b.observe();
        catch_unwind(AssertUnwindSafe(|| st.stabilise())).map_err(|e| format!("first stabilise panicked: {}", crate::panic_message(e)))?;
        let old_tail = holder.borrow().clone().unwrap();
        let o_tail = old_tail.observe();
        catch_unwind(AssertUnwindSafe(|| st.stabilise())).map_err(|e| format!("observing the scope node panicked: {}", crate::panic_message(e)))?;
        sel.set(1);
        catch_unwind(AssertUnwindSafe(|| st.stabilise())).map_err(|e| format!("re-running the bind panicked: {}", crate::panic_message(e)))?;
        if o_tail.try_get_value() != Err(incremental::ObserverError::ObservingInvalid) {
            return Err(format!("the kept node of the previous run reads {:?}", o_tail.try_get_value()));
        }
        let top = chain_from(&old_tail, extra);
        let o_top = top.observe();
        let r = catch_unwind(AssertUnwindSafe(|| st.stabilise()));
        let out = match (r, over) {
            (Ok(()), false) => {
                if o_top.try_get_value() == Err(incremental::ObserverError::ObservingInvalid) {
                    Ok(true)
                } else {
                    Err(format!("nodes built on an invalidated node read {:?}", o_top.try_get_value()))
                }
            }
            (Err(e), false) => Err(format!(
                "{extra} maps on an invalidated bind-scope node (which has no inputs any more and sits right above its bind's lhs-change node, height {}) were rejected under limit {n}: {}",
                floor,
                crate::panic_message(e)
            )),
            // one level more: whether this is rejected depends on where the engine keeps the
            // invalidated node, which the property does not say; only a wrong diagnostic is judged
            (Ok(()), true) => Ok(false),
            (Err(e), true) => {
                let m = crate::panic_message(e);
                if m.to_lowercase().contains("height") { Ok(false) } else { Err(format!("panic does not name the height limit: {m}")) }
            }
        };
        let d = catch_unwind(AssertUnwindSafe(move || {
            drop((o_top, top, o_tail, old_tail, ob, b, holder, sel, x));
            drop(st);
        }));
        if let Err(e) = d {
            return Err(format!("dropping the handles afterwards panicked: {}", crate::panic_message(e)));
        }
        out
    })();
    Case { desc, verdict }
}

/// sweeps every N in lo..=hi against every shape with sizes around N
pub fn run_heights(lo: usize, hi: usize) -> J {
    let (h0, _) = measure(Shape::Chain, 0);
    let (mut evals, mut judged_reject, mut judged_accept) = (0u64, 0u64, 0u64);
    let mut violations = vec![];
    let mut samples = vec![];
    for n in lo..=hi {
        for over in [false, true] {
            let c = invalid_base_case(n, over);
            evals += 1;
            match c.verdict {
                Ok(true) => judged_accept += 1,
                Ok(false) => {}
                Err(msg) => {
                    if violations.len() < 10 {
                        violations.push(J::obj(vec![
                            ("property", J::s("C19")),
                            ("message", J::s(format!("{}: {msg}", c.desc))),
                            ("argv", J::Arr(vec![J::s("limits-heights"), J::s(n.to_string()), J::s(n.to_string())])),
                        ]));
                    }
                }
            }
        }
        for shape in SHAPES {
            // sizes that put the needed height at N-1, N, N+1, N+2 (roughly; measured exactly)
            let mut sizes: Vec<usize> = vec![];
            for s in 0..=(n + 6) {
                let (_, h2) = measure(shape, s);
                let excess = h2 as i64 - n as i64;
                // (for the two-input shapes also graphs so tall that the limit is hit inside one
                // input chain, i.e. while the two-input node is only partly linked)
                if excess.abs() <= 1 || excess == 2 || (matches!(shape, Shape::Tree | Shape::TreeRev) && (3..=4).contains(&excess)) {
                    sizes.push(s);
                }
            }
            for s in sizes {
                for cfg in [Config::NewWithHeight, Config::SetBeforeBuild, Config::GrowBefore, Config::ShrinkAfter(1), Config::ShrinkAfter(7)] {
                    if matches!(cfg, Config::GrowBefore) && n < 2 {
                        continue;
                    }
                    let c = height_case(shape, s, n, cfg);
                    evals += 1;
                    match c.verdict {
                        Ok(true) => {
                            let (_, h2) = measure(shape, s);
                            if h2 as usize > n { judged_reject += 1 } else { judged_accept += 1 }
                            if samples.len() < 3 && h2 as usize == n {
                                samples.push(J::s(c.desc.clone()));
                            }
                        }
                        Ok(false) => {}
                        Err(msg) => {
                            if violations.len() < 10 {
                                violations.push(J::obj(vec![
                                    ("property", J::s("C19")),
                                    ("message", J::s(format!("{}: {msg}", c.desc))),
                                    ("argv", J::Arr(vec![J::s("limits-heights"), J::s(n.to_string()), J::s(n.to_string())])),
                                ]));
                            }
                        }
                    }
                }
            }
        }
    }
    J::obj(vec![
        ("workload", J::s("limits-heights")),
        ("evaluations", J::Int(evals as i64)),
        ("nontrivial", J::Int((judged_reject + judged_accept) as i64)),
        ("stats", J::obj(vec![
            ("height_cases_rejected_as_expected", J::Int(judged_reject as i64)),
            ("height_cases_accepted_as_expected", J::Int(judged_accept as i64)),
            ("height_of_a_bare_var", J::Int(h0 as i64)),
        ])),
        ("violations", J::Arr(violations)),
        ("samples", J::Arr(samples)),
    ])
}

// ------------------------------------------------------------------------------------------
// misuse
// ------------------------------------------------------------------------------------------

pub const MISUSE: [&str; 14] = [
    "cycle_rhs_node_of_dependent_bind",
    "cycle_rhs_node_three_binds",
    "cycle_one_bind",
    "cycle_one_bind_long",
    "cycle_two_binds",
    "cycle_bind_fold",
    "cross_state",
    "cross_state_dropped",
    "cross_state_dropped_later",
    "nested_stabilise_map",
    "nested_stabilise_bind",
    "nested_stabilise_handler",
    "nested_stabilise_handler_pending_write",
    "nested_stabilise_cutoff",
];

struct Steps(Rc<Cell<u64>>);
impl Steps {
    fn tick(&self) {
        self.0.set(self.0.get() + 1);
        if self.0.get() > 10_000 {
            panic!("verif: step bound exceeded (the engine is looping)");
        }
    }
}

/// returns Ok(panic message) if the misuse panicked at the expected call, Err otherwise
pub fn misuse_case(name: &str) -> Result<String, String> {
    let steps = Rc::new(Cell::new(0u64));
    let st = IncrState::new();
    let mut keep: Vec<Box<dyn std::any::Any>> = vec![];
    let needle: Option<&str>;
    let result: Result<(), String>;
    match name {
        "cycle_one_bind" | "cycle_one_bind_long" | "cycle_bind_fold" => {
            needle = Some("cycl");
            let v = st.var(0i64);
            let holder: Rc<RefCell<Option<Incr<i64>>>> = Rc::new(RefCell::new(None));
            let k = st.constant(5i64);
            let (h2, s2) = (holder.clone(), Steps(steps.clone()));
            let b = v.bind(move |x| {
                s2.tick();
                if *x == 0 {
                    k.clone()
                } else {
                    let s3 = Steps(s2.0.clone());
                    h2.borrow().clone().unwrap().map(move |y| {
                        s3.tick();
                        y + 1
                    })
                }
            });
            let s4 = Steps(steps.clone());
            let mut m = b.map(move |x| {
                s4.tick();
                x + 1
            });
            if name == "cycle_one_bind_long" {
                for _ in 0..5 {
                    m = m.map(|x| x + 1);
                }
            }
            if name == "cycle_bind_fold" {
                let other = st.var(1i64);
                m = st.fold(vec![m.clone(), other.watch(), m.clone()], 0, |a, x| a + x);
                keep.push(Box::new(other));
            }
            *holder.borrow_mut() = Some(m.clone());
            let o = m.observe();
            st.stabilise();
            v.set(1);
            result = catch_unwind(AssertUnwindSafe(|| st.stabilise())).map_err(crate::panic_message);
            holder.borrow_mut().take();
            keep.push(Box::new((o, m, b, v)));
        }
        "cycle_two_binds" => {
            needle = Some("cycl");
            let v = st.var(0i64);
            let holder: Rc<RefCell<Option<Incr<i64>>>> = Rc::new(RefCell::new(None));
            let k = st.constant(5i64);
            let h2 = holder.clone();
            let s2 = Steps(steps.clone());
            let b1 = v.bind(move |x| {
                s2.tick();
                if *x == 0 { k.clone() } else { h2.borrow().clone().unwrap() }
            });
            let w = st.var(0i64);
            let b1c = b1.clone();
            let s3 = Steps(steps.clone());
            let b2 = w.bind(move |_| {
                s3.tick();
                b1c.map(|x| x + 1)
            });
            let m = b2.map(|x| x + 1);
            *holder.borrow_mut() = Some(m.clone());
            let o = m.observe();
            st.stabilise();
            v.set(1);
            result = catch_unwind(AssertUnwindSafe(|| st.stabilise())).map_err(crate::panic_message);
            holder.borrow_mut().take();
            keep.push(Box::new((o, m, b1, b2, v, w)));
        }
        "cycle_rhs_node_of_dependent_bind" | "cycle_rhs_node_three_binds" => {
            // `outer` ends up returning a node that was built on the right-hand side of a bind
            // whose input is `outer` itself (possibly through a further bind and a map)
            needle = Some("cycl");
            let w = st.var(0i64);
            let c = st.var(10i64);
            let slot: Rc<RefCell<Option<Incr<i64>>>> = Rc::new(RefCell::new(None));
            let zero = st.constant(0i64);
            let (sl, s2) = (slot.clone(), Steps(steps.clone()));
            let outer = w.bind(move |x| {
                s2.tick();
                if *x == 0 { zero.clone() } else { sl.borrow().clone().unwrap() }
            });
            let mid = if name == "cycle_rhs_node_three_binds" {
                let k = st.var(1i64);
                let o2 = outer.clone();
                let b = k.bind(move |_| o2.map(|v| v + 0));
                keep.push(Box::new(k));
                b
            } else {
                outer.clone()
            };
            let (sl2, cw, s3) = (slot.clone(), c.watch(), Steps(steps.clone()));
            let inner = mid.bind(move |x| {
                s3.tick();
                let x = *x;
                let s4 = Steps(s3.0.clone());
                let n = cw.map(move |cv| {
                    s4.tick();
                    cv + x
                });
                sl2.borrow_mut().replace(n.clone());
                n
            });
            let o = inner.observe();
            st.stabilise();
            c.set(11);
            st.stabilise();
            w.set(1);
            result = catch_unwind(AssertUnwindSafe(|| st.stabilise())).map_err(crate::panic_message);
            slot.borrow_mut().take();
            keep.push(Box::new((o, inner, outer, w, c)));
        }
        "cross_state" => {
            needle = None;
            let other = IncrState::new();
            let foreign = other.var(7i64);
            let v = st.var(0i64);
            let f = foreign.watch();
            let b = v.bind(move |_| f.clone());
            let o = b.observe();
            result = catch_unwind(AssertUnwindSafe(|| st.stabilise())).map_err(crate::panic_message);
            keep.push(Box::new((o, b, v, foreign, other)));
        }
        "cross_state_dropped" | "cross_state_dropped_later" => {
            // the other state is gone by the time the bind hands out one of its nodes (at once, or
            // after a history of local results): still a node of another state
            needle = None;
            let other = IncrState::new();
            let foreign = other.var(7i64).watch().map(|x| x + 1);
            let fo = foreign.observe();
            other.stabilise();
            drop(fo);
            let v = st.var(0i64);
            let local = st.constant(1i64);
            let later = name == "cross_state_dropped_later";
            let b = v.bind(move |x| if later && *x == 0 { local.clone() } else { foreign.clone() });
            let o = b.observe();
            drop(other);
            if later {
                st.stabilise();
                if o.try_get_value() != Ok(1) {
                    return Err(format!("local result reads {:?}", o.try_get_value()));
                }
                v.set(1);
            }
            result = catch_unwind(AssertUnwindSafe(|| st.stabilise())).map_err(crate::panic_message);
            if result.is_ok() {
                return Err(format!("a node of another (already dropped) state was accepted as a bind result; the observer reads {:?}", o.try_get_value()));
            }
            keep.push(Box::new((o, b, v)));
        }
        "nested_stabilise_handler_pending_write" => {
            // the handler first writes a variable (so there is work to do), then calls stabilise:
            // the nested call must be refused at the door, not after it has computed values
            needle = None;
            let v = st.var(0i64);
            let w = st.var(0i64);
            let runs = Rc::new(Cell::new(0u32));
            let r2 = runs.clone();
            let s2 = Steps(steps.clone());
            let m = w.map(move |x| {
                s2.tick();
                r2.set(r2.get() + 1);
                x + 1
            });
            let om = m.observe();
            let o = v.observe();
            let ws = st.weak();
            let w2 = w.clone();
            let inner_ran = Rc::new(Cell::new(0));
            let ir = inner_ran.clone();
            let _t = o.subscribe(move |_| {
                w2.set(100);
                if let Some(s) = ws.upgrade() {
                    s.stabilise();
                    ir.set(ir.get() + 1);
                }
            });
            result = catch_unwind(AssertUnwindSafe(|| st.stabilise())).map_err(crate::panic_message);
            keep.push(Box::new((o, om, m, v, w)));
            if inner_ran.get() > 0 {
                return Err("a nested stabilise called from an update handler returned normally".into());
            }
            if runs.get() != 1 {
                return Err(format!(
                    "a stabilise called from an update handler (after the handler wrote a variable) computed values before it was refused: the map over that variable ran {} times, expected 1",
                    runs.get()
                ));
            }
        }
        "nested_stabilise_map" | "nested_stabilise_bind" | "nested_stabilise_handler" | "nested_stabilise_cutoff" => {
            needle = None;
            let v = st.var(0i64);
            let ws = st.weak();
            let s2 = Steps(steps.clone());
            let inner_ran = Rc::new(Cell::new(0));
            let ir = inner_ran.clone();
            let nest = move || {
                s2.tick();
                if let Some(s) = ws.upgrade() {
                    s.stabilise();
                    ir.set(ir.get() + 1);
                }
            };
            match name {
                "nested_stabilise_map" => {
                    let m = v.map(move |x| {
                        nest();
                        x + 1
                    });
                    let o = m.observe();
                    result = catch_unwind(AssertUnwindSafe(|| st.stabilise())).map_err(crate::panic_message);
                    keep.push(Box::new((o, m)));
                }
                "nested_stabilise_bind" => {
                    let k = st.constant(1i64);
                    let b = v.bind(move |_| {
                        nest();
                        k.clone()
                    });
                    let o = b.observe();
                    result = catch_unwind(AssertUnwindSafe(|| st.stabilise())).map_err(crate::panic_message);
                    keep.push(Box::new((o, b)));
                }
                "nested_stabilise_cutoff" => {
                    let m = v.map(|x| x + 1);
                    let o = m.observe();
                    st.stabilise();
                    let nest = Rc::new(nest);
                    let n2 = nest.clone();
                    m.set_cutoff_fn_boxed(move |_, _| {
                        n2();
                        false
                    });
                    v.set(1);
                    result = catch_unwind(AssertUnwindSafe(|| st.stabilise())).map_err(crate::panic_message);
                    keep.push(Box::new((o, m)));
                }
                _ => {
                    let o = v.observe();
                    let _t = o.subscribe(move |_| nest());
                    result = catch_unwind(AssertUnwindSafe(|| st.stabilise())).map_err(crate::panic_message);
                    keep.push(Box::new(o));
                }
            }
            keep.push(Box::new(v));
            if inner_ran.get() > 0 {
                return Err("a nested stabilise returned normally".into());
            }
        }
        other => return Err(format!("unknown misuse case {other}")),
    }
    let verdict = match result {
        Ok(()) => Err("the misuse was accepted: stabilise returned normally".to_string()),
        Err(msg) => {
            if msg.contains("step bound") {
                Err(format!("no prompt panic: {msg}"))
            } else if let Some(n) = needle {
                if msg.to_lowercase().contains(n) { Ok(msg) } else { Err(format!("the panic does not name the cause ({n}): {msg}")) }
            } else {
                Ok(msg)
            }
        }
    };
    // the handles can still be dropped afterwards (an abort here kills the process: the driver
    // runs every case in its own process)
    let d = catch_unwind(AssertUnwindSafe(move || {
        drop(keep);
        drop(st);
    }));
    if let Err(e) = d {
        return Err(format!("dropping the handles after the misuse panicked a second time: {}", crate::panic_message(e)));
    }
    verdict
}
