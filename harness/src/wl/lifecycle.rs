//! C10: exhaustive enumeration of observer lifecycle sequences on two observers of one shared
//! node, checked against an explicit lifecycle model.

use crate::json::J;
use incremental::{IncrState, Observer, ObserverError, SubscriptionToken, Update};
use std::cell::RefCell;
use std::panic::{catch_unwind, AssertUnwindSafe};
use std::rc::Rc;

pub const ALPHABET: usize = 18;

#[derive(Clone, Copy, Debug, PartialEq)]
pub enum Act {
    Observe(usize),
    Clone(usize),
    Drop(usize),
    Disallow(usize),
    Subscribe(usize),
    UnsubOwn(usize),
    UnsubForeign(usize),
    StateUnsub(usize),
    Write,
    Stabilise,
}

pub fn act(code: usize) -> Act {
    let x = code % 2;
    match code / 2 {
        0 => Act::Observe(x),
        1 => Act::Clone(x),
        2 => Act::Drop(x),
        3 => Act::Disallow(x),
        4 => Act::Subscribe(x),
        5 => Act::UnsubOwn(x),
        6 => Act::UnsubForeign(x),
        7 => Act::StateUnsub(x),
        _ => {
            if x == 0 {
                Act::Write
            } else {
                Act::Stabilise
            }
        }
    }
}

#[derive(Clone, Copy, PartialEq, Debug)]
enum MState {
    Created,
    InUse,
    Disallowed,
}

struct MSub {
    token: SubscriptionToken,
    id: usize,
    active: bool,
    delivered: bool,
}

struct Slot {
    handles: Vec<Observer<i64>>,
    state: MState,
    subs: Vec<MSub>,
    last_value: Option<i64>,
    exists: bool,
}

pub enum Outcome {
    /// the sequence contains a step that is a no-op or outside the property (not counted)
    Pruned,
    Ok { nontrivial: bool },
    Violation(String),
}

pub fn run_sequence(codes: &[usize]) -> Outcome {
    run_sequence_on(codes, false)
}

/// `invalid`: the shared node is a node built by an earlier run of a bind closure (leaked through a
/// side channel), i.e. it is invalid from the start. The lifecycle is the same, except that an
/// in-use observer reads `ObservingInvalid`; sequences with subscriptions are not judged there.
pub fn run_sequence_on(codes: &[usize], invalid: bool) -> Outcome {
    let r = catch_unwind(AssertUnwindSafe(|| run_sequence_inner(codes, invalid)));
    match r {
        Ok(o) => o,
        Err(e) => Outcome::Violation(format!("panic: {}", crate::panic_message(e))),
    }
}

fn run_sequence_inner(codes: &[usize], invalid: bool) -> Outcome {
    let st = IncrState::new();
    let v = st.var(0i64);
    let mut keep: Vec<Box<dyn std::any::Any>> = vec![];
    let n = if invalid {
        if codes.iter().any(|c| (4..=7).contains(&(c / 2))) {
            return Outcome::Pruned;
        }
        let sel = st.var(0i64);
        let leak: Rc<RefCell<Vec<incremental::Incr<i64>>>> = Rc::new(RefCell::new(vec![]));
        let (l2, vw) = (leak.clone(), v.watch());
        let b = sel.bind(move |_| {
            let m = vw.map(|x| x + 1);
            l2.borrow_mut().push(m.clone());
            m
        });
        let ob = b.observe();
        st.stabilise();
        sel.set(1);
        st.stabilise();
        let n = leak.borrow()[0].clone();
        keep.push(Box::new((ob, b, sel, leak)));
        n
    } else {
        v.map(|x| x + 1)
    };
    // Before the sequence starts an observer of the same node has lived and died (subscribed,
    // stabilised, dropped, unlinked): its token is stale for the rest of the run. Tokens are plain
    // data that outlive their observer, so presenting this one later must never touch an observer
    // created afterwards (which may well live in the same allocation).
    // (several of them, so that whatever else is allocated in between, the observers below are
    // likely to live where one of them did)
    let stale: Vec<incremental::SubscriptionToken> = {
        let olds: Vec<_> = (0..6).map(|_| n.observe()).collect();
        let toks = olds.iter().map(|o| o.subscribe(|_| ())).collect();
        st.stabilise();
        drop(olds);
        st.stabilise();
        toks
    };
    let log: Rc<RefCell<Vec<(usize, Update<i64>)>>> = Rc::new(RefCell::new(vec![]));
    let mut next_sub = 0usize;
    let mut value_at_last_stab: Option<i64> = None;
    let mut cur = 0i64;
    let mut slots: Vec<Slot> = (0..2)
        .map(|_| Slot { handles: vec![n.observe()], state: MState::Created, subs: vec![], last_value: None, exists: true })
        .collect();
    let mut nontrivial = false;
    macro_rules! bad {
        ($($t:tt)+) => { return Outcome::Violation(format!($($t)+)) };
    }
    for (step, code) in codes.iter().enumerate() {
        let a = act(*code);
        match a {
            Act::Observe(x) => {
                if !slots[x].handles.is_empty() {
                    return Outcome::Pruned;
                }
                slots[x] = Slot { handles: vec![n.observe()], state: MState::Created, subs: vec![], last_value: None, exists: true };
            }
            Act::Clone(x) => {
                let Some(h) = slots[x].handles.first().cloned() else { return Outcome::Pruned };
                slots[x].handles.push(h);
            }
            Act::Drop(x) => {
                if slots[x].handles.pop().is_none() {
                    return Outcome::Pruned;
                }
                if slots[x].handles.is_empty() {
                    slots[x].state = MState::Disallowed;
                    for s in slots[x].subs.iter_mut() {
                        s.active = false;
                    }
                }
            }
            Act::Disallow(x) => {
                let Some(h) = slots[x].handles.first() else { return Outcome::Pruned };
                if slots[x].state == MState::Disallowed {
                    nontrivial = true;
                }
                h.disallow_future_use();
                slots[x].state = MState::Disallowed;
                for s in slots[x].subs.iter_mut() {
                    s.active = false;
                }
            }
            Act::Subscribe(x) => {
                let Some(h) = slots[x].handles.first() else { return Outcome::Pruned };
                let id = next_sub;
                next_sub += 1;
                let log2 = log.clone();
                let r = h.try_subscribe(move |u| log2.borrow_mut().push((id, u.cloned())));
                match (slots[x].state, r) {
                    (MState::Disallowed, Err(ObserverError::Disallowed)) => nontrivial = true,
                    (MState::Disallowed, other) => bad!("step {step} {:?}: subscribe on a disallowed observer returned {:?}", a, other.map(|_| "Ok(token)")),
                    (_, Ok(token)) => slots[x].subs.push(MSub { token, id, active: true, delivered: false }),
                    (s, Err(e)) => bad!("step {step} {:?}: subscribe in state {:?} failed with {:?}", a, s, e),
                }
            }
            Act::UnsubOwn(x) => {
                let Some(h) = slots[x].handles.first().cloned() else { return Outcome::Pruned };
                let state = slots[x].state;
                let Some(s) = slots[x].subs.last_mut() else { return Outcome::Pruned };
                if state == MState::Disallowed {
                    nontrivial = true;
                }
                let r = h.unsubscribe(s.token);
                if r != Ok(()) {
                    bad!("step {step} {:?}: unsubscribing an own token returned {:?}", a, r);
                }
                s.active = false;
            }
            Act::UnsubForeign(x) => {
                let Some(h) = slots[x].handles.first() else { return Outcome::Pruned };
                let Some(tok) = slots[1 - x].subs.last().map(|s| s.token) else { return Outcome::Pruned };
                nontrivial = true;
                let r = h.unsubscribe(tok);
                if r != Err(ObserverError::Mismatch) {
                    bad!("step {step} {:?}: unsubscribing another observer's token returned {:?}, expected Err(Mismatch)", a, r);
                }
                for tok in &stale {
                    let r = h.unsubscribe(*tok);
                    if r != Err(ObserverError::Mismatch) {
                        bad!("step {step} {:?}: unsubscribing the token of an observer that died before this one was created returned {:?}, expected Err(Mismatch)", a, r);
                    }
                }
            }
            Act::StateUnsub(x) => {
                if !slots[x].exists {
                    return Outcome::Pruned;
                }
                let state = slots[x].state;
                let Some(s) = slots[x].subs.last_mut() else { return Outcome::Pruned };
                // (also on an observer that has not been through a stabilise yet: C09's "no callback
                // runs after unsubscribe"; defect #23)
                if state == MState::Disallowed || state == MState::Created {
                    nontrivial = true;
                }
                st.unsubscribe(s.token);
                s.active = false;
            }
            Act::Write => {
                cur += 1;
                v.set(cur);
                // silent no-op: its observer is long gone (the subscriptions of the live observers
                // keep being delivered, which the next stabilise checks)
                for tok in &stale {
                    st.unsubscribe(*tok);
                }
            }
            Act::Stabilise => {
                log.borrow_mut().clear();
                st.stabilise();
                let value = cur + 1;
                let changed = value_at_last_stab != Some(value);
                value_at_last_stab = Some(value);
                let mut expected: Vec<(usize, Update<i64>)> = vec![];
                for s in slots.iter_mut() {
                    if s.state == MState::Created {
                        s.state = MState::InUse;
                    }
                    if s.state != MState::InUse {
                        continue;
                    }
                    let observer_changed = s.last_value != Some(value);
                    s.last_value = Some(value);
                    for sub in s.subs.iter_mut() {
                        if !sub.active {
                            continue;
                        }
                        if !sub.delivered {
                            sub.delivered = true;
                            expected.push((sub.id, Update::Initialised(value)));
                        } else if changed && observer_changed {
                            expected.push((sub.id, Update::Changed(value)));
                        }
                    }
                }
                let mut got = log.borrow().clone();
                got.sort_by_key(|x| x.0);
                expected.sort_by_key(|x| x.0);
                if got != expected {
                    bad!("step {step} stabilise: handlers received {:?}, lifecycle model expects {:?}", got, expected);
                }
            }
        }
        // read every handle after every action
        for (x, s) in slots.iter().enumerate() {
            for h in &s.handles {
                let got = h.try_get_value();
                let expected = match s.state {
                    MState::Created => Err(ObserverError::NeverStabilised),
                    MState::InUse if invalid => Err(ObserverError::ObservingInvalid),
                    MState::InUse => Ok(s.last_value.unwrap()),
                    MState::Disallowed => Err(ObserverError::Disallowed),
                };
                if got != expected {
                    bad!("step {step} after {:?}: observer {x} returned {:?}, lifecycle model expects {:?}", a, got, expected);
                }
            }
        }
        #[cfg(cormacrelf_incremental_rs_verif)]
        {
            let audit = st.verif_audit();
            if !audit.is_empty() {
                bad!("step {step} after {:?}: audit: {}", a, audit.join(" | "));
            }
        }
    }
    drop(slots);
    drop(n);
    drop(keep);
    drop(v);
    st.stabilise();
    drop(st);
    Outcome::Ok { nontrivial }
}

/// enumerates every sequence of length `len` whose index is congruent to shard mod nshards
pub fn run(len: usize, shard: u64, nshards: u64) -> J {
    let total = (ALPHABET as u64).pow(len as u32);
    let (mut executed, mut pruned, mut nontrivial) = (0u64, 0u64, 0u64);
    let mut violations = vec![];
    let mut sample = None;
    let mut i = shard;
    while i < total {
        let mut codes = Vec::with_capacity(len);
        let mut x = i;
        for _ in 0..len {
            codes.push((x % ALPHABET as u64) as usize);
            x /= ALPHABET as u64;
        }
        for invalid in [false, true] {
        match run_sequence_on(&codes, invalid) {
            Outcome::Pruned => pruned += 1,
            Outcome::Ok { nontrivial: nt } => {
                executed += 1;
                if nt {
                    nontrivial += 1;
                    if sample.is_none() {
                        sample = Some(codes.iter().map(|c| format!("{:?}", act(*c))).collect::<Vec<_>>());
                    }
                }
            }
            Outcome::Violation(msg) => {
                executed += 1;
                if violations.len() < 10 {
                    violations.push(J::obj(vec![
                        ("property", J::s("C10")),
                        ("message", J::s(format!("{:?}{}: {msg}", codes.iter().map(|c| act(*c)).collect::<Vec<_>>(), if invalid { " on an invalidated node" } else { "" }))),
                        ("argv", J::Arr(vec![J::s("lifecycle-one"), J::s(codes.iter().map(|c| c.to_string()).collect::<Vec<_>>().join(",")), J::s(if invalid { "invalid-node" } else { "valid-node" })])),
                    ]));
                }
            }
        }
        }
        i += nshards;
    }
    J::obj(vec![
        ("workload", J::s("lifecycle")),
        ("len", J::Int(len as i64)),
        ("evaluations", J::Int(executed as i64)),
        ("pruned", J::Int(pruned as i64)),
        ("nontrivial", J::Int(nontrivial as i64)),
        ("space", J::Int(total as i64)),
        ("violations", J::Arr(violations)),
        ("samples", J::Arr(sample.into_iter().map(|s| J::Arr(s.into_iter().map(J::s).collect())).collect())),
    ])
}
