//! C14, second construction: an expert node that is the right-hand side of a switching bind, so it
//! becomes unnecessary (and necessary again) in the *middle* of a stabilise, with one dependency on
//! a bind-created node that its rewiring child replaces (or, in "lazy" rounds, leaves in place).
//!
//! The oracle is a small explicit model of what the construction means:
//!   * while the switch selects the expert node, the observer reads x + (k + 10 c);
//!   * the expert node becomes invalid exactly when it recomputes while its dependency is a node of
//!     an earlier run of the inner bind (the child did not replace it);
//!   * switching it out and back in never invalidates it by itself.

use crate::json::J;
use crate::rng::{mix, Rng};
use incremental::expert::{Dependency, Node as ExpertNode};
use incremental::{Incr, IncrState, ObserverError};
use std::cell::{Cell, RefCell};
use std::panic::{catch_unwind, AssertUnwindSafe};
use std::rc::Rc;

pub struct Outcome {
    pub violation: Option<String>,
    pub actions: Vec<String>,
    pub nontrivial: bool,
}

pub fn run_history(seed: u64) -> Outcome {
    let mut actions = vec![];
    let mut nontrivial = false;
    let r = catch_unwind(AssertUnwindSafe(|| inner(seed, &mut actions, &mut nontrivial)));
    let violation = match r {
        Ok(Ok(())) => None,
        Ok(Err(m)) => Some(m),
        Err(e) => Some(format!("[C04] panic: {}", crate::panic_message(e))),
    };
    Outcome { violation, actions, nontrivial }
}

struct Sh {
    /// node built by the latest run of the inner bind, and the number of that run
    inner: RefCell<Option<(u64, Incr<i64>)>>,
    runs: Cell<u64>,
    /// the expert node's dependency on a bind-created node: (run that built the node, handle)
    dep: RefCell<Option<(u64, Dependency<i64>)>>,
    lazy: Cell<bool>,
    child_runs: Cell<u64>,
}

fn inner(seed: u64, actions: &mut Vec<String>, nontrivial: &mut bool) -> Result<(), String> {
    let mut rng = Rng::new(seed ^ 0xe2e2);
    let st = IncrState::new();
    let (x, k, c, tick, swsel) = (st.var(1i64), st.var(100i64), st.var(1i64), st.var(0i64), st.var(0i64));
    let sh = Rc::new(Sh { inner: RefCell::new(None), runs: Cell::new(0), dep: RefCell::new(None), lazy: Cell::new(false), child_runs: Cell::new(0) });
    let bd = {
        let (sh, kw) = (sh.clone(), k.watch());
        c.bind(move |cv| {
            let cv = *cv;
            let n = kw.map(move |kv| kv + 10 * cv);
            sh.runs.set(sh.runs.get() + 1);
            *sh.inner.borrow_mut() = Some((sh.runs.get(), n.clone()));
            n
        })
    };
    let bd_obs = bd.observe();
    let dep_x: Rc<RefCell<Option<Dependency<i64>>>> = Rc::new(RefCell::new(None));
    let e = ExpertNode::<i64>::new(&st.weak(), {
        let (sh, dep_x) = (sh.clone(), dep_x.clone());
        move || {
            let a = dep_x.borrow().as_ref().unwrap().value_cloned();
            let b = sh.dep.borrow().as_ref().map(|(_, d)| d.value_cloned()).unwrap_or(0);
            a + b
        }
    });
    dep_x.borrow_mut().replace(e.add_dependency(&x.watch()));
    let child = {
        let (sh, ew) = (sh.clone(), e.weak());
        tick.map2(&bd, move |_, _| {
            sh.child_runs.set(sh.child_runs.get() + 1);
            if sh.lazy.replace(false) {
                return;
            }
            let (run, node) = sh.inner.borrow().clone().unwrap();
            let cur = sh.dep.borrow().as_ref().map(|d| d.0);
            if cur != Some(run) {
                let new = ew.add_dependency(&node);
                if let Some((_, old)) = sh.dep.borrow_mut().take() {
                    ew.remove_dependency(old);
                }
                *sh.dep.borrow_mut() = Some((run, new));
            }
        })
    };
    e.add_dependency(&child);
    let konst = st.constant(-7i64);
    let sw = {
        let (ew, konst) = (e.watch(), konst.clone());
        swsel.bind(move |s| if *s == 0 { ew.clone() } else { konst.clone() })
    };
    let sw_obs = sw.observe();

    // ---- model ---------------------------------------------------------------------------
    let (mut xv, mut kv, mut cv, mut tv, mut sv) = (1i64, 100i64, 1i64, 0i64, 0i64);
    // values the engine saw at the last stabilise
    let (mut c_seen, mut s_seen) = (1i64, 0i64);
    let mut inner_run = 0u64; // run number of the inner bind's current node
    let mut dep_run: Option<u64> = None; // run number of the node the expert node depends on
    // the child's view: tick value it last saw, whether the inner bind's value changed since
    let mut child_tick: Option<i64> = None;
    let mut bd_changed_since_child = true;
    let mut bd_prev: Option<i64> = None;
    let mut lazy_pending = false;
    let mut first = true;
    let n_actions = 20 + rng.below(50);
    for _ in 0..n_actions {
        match rng.below(10) {
            0 => {
                xv = rng.range(0, 9);
                x.set(xv);
                actions.push(format!("x={xv}"));
            }
            1 => {
                kv = 100 * rng.range(1, 3);
                k.set(kv);
                actions.push(format!("k={kv}"));
            }
            2 | 3 => {
                cv = rng.range(0, 4);
                c.set(cv);
                actions.push(format!("c={cv}"));
            }
            4 => {
                tv += 1;
                tick.set(tv);
                actions.push("tick".into());
            }
            5 | 6 => {
                sv = 1 - sv;
                swsel.set(sv);
                actions.push(format!("switch={sv}"));
            }
            7 => {
                if rng.chance(1, 3) && !lazy_pending {
                    sh.lazy.set(true);
                    lazy_pending = true;
                    actions.push("the child will not rewire in its next run".into());
                }
            }
            _ => {
                let child_before = sh.child_runs.get();
                st.stabilise();
                // ---- what the construction means ----
                if first || cv != c_seen {
                    inner_run += 1;
                }
                first = false;
                c_seen = cv;
                if sh.runs.get() != inner_run {
                    return Err(format!("the inner bind ran {} times so far, expected {inner_run}", sh.runs.get()));
                }
                let on_before = s_seen == 0;
                let on_after = sv == 0;
                s_seen = sv;
                let bd_value = kv + 10 * cv;
                if bd_prev != Some(bd_value) {
                    bd_changed_since_child = true;
                }
                bd_prev = Some(bd_value);
                let mut child_should_run = false;
                if on_after {
                    // the child is necessary at the end of this stabilise: it ran if it was stale
                    if child_tick != Some(tv) || bd_changed_since_child {
                        child_should_run = true;
                        child_tick = Some(tv);
                        bd_changed_since_child = false;
                        if lazy_pending {
                            lazy_pending = false;
                        } else {
                            dep_run = Some(inner_run);
                        }
                    }
                }
                let child_ran = sh.child_runs.get() - child_before;
                actions.push(format!("stabilise (switch={sv}, inner run {inner_run}, dependency on run {dep_run:?}, child ran x{child_ran})"));
                if child_ran != child_should_run as u64 {
                    return Err(format!("[model] the rewiring child ran {child_ran} time(s) in this stabilise, the model expects {}", child_should_run as u64));
                }
                if bd_obs.try_get_value() != Ok(bd_value) {
                    return Err(format!("the inner bind reads {:?}, expected {bd_value}", bd_obs.try_get_value()));
                }
                let got = sw_obs.try_get_value();
                if on_after {
                    let want = match dep_run {
                        None => Ok(xv),
                        Some(r) if r == inner_run => Ok(xv + bd_value),
                        Some(_) => Err(ObserverError::ObservingInvalid),
                    };
                    if got != want {
                        return Err(match want {
                            Err(_) => format!(
                                "the expert node kept a dependency on the node of run {dep_run:?} of the inner bind (now at run {inner_run}) through a stabilise in which it was necessary, but the observer reads {:?} instead of ObservingInvalid",
                                got
                            ),
                            Ok(w) => format!(
                                "the switch selects the expert node (dependencies: x and the node of run {dep_run:?} of the inner bind, which is at run {inner_run}): the observer reads {:?}, the reference value is {w}",
                                got
                            ),
                        });
                    }
                    if want.is_err() {
                        *nontrivial = true;
                        break;
                    }
                    if !on_before {
                        *nontrivial = true;
                    }
                } else if got != Ok(-7) {
                    return Err(format!("the switch selects the constant, the observer reads {:?}", got));
                }
                #[cfg(cormacrelf_incremental_rs_verif)]
                {
                    let audit = st.verif_audit();
                    if !audit.is_empty() {
                        return Err(format!("audit: {}", audit.join(" | ")));
                    }
                }
            }
        }
    }
    sh.dep.borrow_mut().take();
    sh.inner.borrow_mut().take();
    dep_x.borrow_mut().take();
    drop((sw_obs, bd_obs, sw, child, e, bd));
    st.stabilise();
    Ok(())
}

pub fn run(seed: u64, shard: u64, count: u64) -> J {
    let mut nontrivial = 0u64;
    let mut violations = vec![];
    let mut samples = vec![];
    for i in 0..count {
        let hseed = mix(mix(seed, shard), i);
        let o = run_history(hseed);
        if o.nontrivial {
            nontrivial += 1;
            if samples.is_empty() {
                samples.push(J::Arr(o.actions.iter().map(|a| J::s(a.clone())).collect()));
            }
        }
        if let Some(m) = o.violation {
            if violations.len() < 10 {
                let prop = if m.starts_with("[C04]") { "C04" } else if m.starts_with("[model]") { "C06" } else { "C14" };
                violations.push(J::obj(vec![
                    ("property", J::s(prop)),
                    ("message", J::s(format!("switched expert node: {m}; history: {:?}", o.actions))),
                    ("argv", J::Arr(vec![J::s("expert2-one"), J::s(hseed.to_string())])),
                ]));
            }
        }
    }
    J::obj(vec![
        ("workload", J::s("expert2")),
        ("evaluations", J::Int(count as i64)),
        ("nontrivial", J::Int(nontrivial as i64)),
        ("stats", J::obj(vec![])),
        ("violations", J::Arr(violations)),
        ("samples", J::Arr(samples)),
    ])
}
