//! C15 / C16 / C17: incremental-map operators against their plain definitions, with work accounting.

use crate::json::J;
use crate::rng::{mix, Rng};
use im_rc::OrdMap;
use incremental::{Cutoff, Incr, IncrState, ObserverError, Value, Var};
use incremental_map::im_rc::Either;
use incremental_map::prelude::*;
use incremental_map::MergeElement;
use std::cell::RefCell;
use std::collections::{BTreeMap, BTreeSet};
use std::panic::{catch_unwind, AssertUnwindSafe};
use std::rc::Rc;

pub type B = BTreeMap<i64, i64>;

pub trait TestMap: Value {
    fn from_b(b: &B) -> Self;
    fn to_b(&self) -> B;
    /// a structurally shared copy where the representation has one
    fn shared_clone(&self) -> Self {
        self.clone()
    }
    const NAME: &'static str;
}
impl TestMap for B {
    fn from_b(b: &B) -> Self {
        b.clone()
    }
    fn to_b(&self) -> B {
        self.clone()
    }
    const NAME: &'static str = "BTreeMap";
}
impl TestMap for Rc<B> {
    fn from_b(b: &B) -> Self {
        Rc::new(b.clone())
    }
    fn to_b(&self) -> B {
        (**self).clone()
    }
    const NAME: &'static str = "Rc<BTreeMap>";
}
impl TestMap for OrdMap<i64, i64> {
    fn from_b(b: &B) -> Self {
        b.iter().map(|(k, v)| (*k, *v)).collect()
    }
    fn to_b(&self) -> B {
        self.iter().map(|(k, v)| (*k, *v)).collect()
    }
    const NAME: &'static str = "OrdMap";
}

#[derive(Clone, Debug, PartialEq)]
pub enum Out {
    Map(B),
    Int(i64),
    Pair(B, B),
}

#[derive(Clone, Debug)]
pub struct Inputs {
    pub left: B,
    pub right: B,
    pub outer: i64,
    pub alt: i64,
}

type Reader = Box<dyn Fn() -> Result<Out, ObserverError>>;
/// Event log shared by every user function of the workload. It is also the crash-point counter of
/// the fault mode (C13): `arm(n)` makes the n-th user-function call of the current stabilise panic.
pub struct LogInner {
    ev: RefCell<Vec<(usize, i64, &'static str)>>,
    calls: std::cell::Cell<u64>,
    fault: std::cell::Cell<Option<u64>>,
}
pub struct LogGuard<'a>(&'a LogInner);
impl LogInner {
    fn new() -> Rc<Self> {
        Rc::new(LogInner { ev: RefCell::new(vec![]), calls: Default::default(), fault: Default::default() })
    }
    fn borrow_mut(&self) -> LogGuard<'_> {
        LogGuard(self)
    }
    fn borrow(&self) -> std::cell::Ref<'_, Vec<(usize, i64, &'static str)>> {
        self.ev.borrow()
    }
    fn arm(&self, n: u64) {
        self.fault.set(Some(n));
    }
}
impl LogGuard<'_> {
    fn push(&self, e: (usize, i64, &'static str)) {
        let n = self.0.calls.get();
        self.0.calls.set(n + 1);
        self.0.ev.borrow_mut().push(e);
        if self.0.fault.get() == Some(n) {
            self.0.fault.set(None);
            std::panic::panic_any(crate::core::rt::InjectedPanic);
        }
    }
    fn clear(&self) {
        self.0.ev.borrow_mut().clear();
        self.0.calls.set(0);
    }
}
type Log = Rc<LogInner>;

#[derive(Clone, Copy, PartialEq, Debug)]
pub enum OpKind {
    /// an operator fed by another operator: values only
    Chained,
    /// single input, user function called for added/changed keys
    Diff,
    Fold { update: bool },
    Merge,
    /// per-key graph operators: a builder per new key, inner functions per changed key
    PerKey { uses_outer: bool, ignores_input: bool },
}

pub struct OpRec {
    pub name: String,
    pub id: usize,
    pub kind: OpKind,
    pub prop: &'static str,
    observe: Box<dyn Fn() -> Reader>,
    expected: Box<dyn Fn(&Inputs) -> Out>,
    reader: Option<Reader>,
    /// inputs as of the last round in which the operator was computed
    processed: Option<Inputs>,
    /// the outer variables changed (even if they changed back) since then
    outer_dirty: bool,
}

fn f_map(v: i64) -> i64 {
    v * 3 + 1
}
fn f_filter(v: i64) -> Option<i64> {
    if v % 2 == 0 { Some(v + 10) } else { None }
}
fn f_mapi(k: i64, v: i64) -> i64 {
    k * 10 + v
}
fn f_filter_mapi(k: i64, v: i64) -> Option<i64> {
    if (k + v) % 3 == 0 { None } else { Some(k * 10 + v) }
}
fn w(k: i64, v: i64) -> i64 {
    (k + 1) * (v + 1)
}
fn f_merge(k: i64, m: MergeElement<&i64, &i64>) -> Option<i64> {
    match m {
        MergeElement::Left(a) => Some(100 + k + a),
        MergeElement::Right(b) => Some(200 + k + b),
        MergeElement::Both(a, b) => {
            if a == b {
                None
            } else {
                Some(300 + a * 10 + b)
            }
        }
    }
}
fn plain_merge(l: &B, r: &B) -> B {
    let keys: BTreeSet<i64> = l.keys().chain(r.keys()).copied().collect();
    let mut out = B::new();
    for k in keys {
        let x = match (l.get(&k), r.get(&k)) {
            (Some(a), Some(b)) => f_merge(k, MergeElement::Both(a, b)),
            (Some(a), None) => f_merge(k, MergeElement::Left(a)),
            (None, Some(b)) => f_merge(k, MergeElement::Right(b)),
            _ => None,
        };
        if let Some(x) = x {
            out.insert(k, x);
        }
    }
    out
}

fn op<T: Value>(
    ops: &mut Vec<OpRec>,
    name: String,
    kind: OpKind,
    prop: &'static str,
    node: Incr<T>,
    conv: impl Fn(&T) -> Out + Clone + 'static,
    expected: impl Fn(&Inputs) -> Out + 'static,
) {
    let id = ops.len();
    ops.push(OpRec {
        name,
        id,
        kind,
        prop,
        observe: Box::new(move || {
            let o = node.observe();
            let conv = conv.clone();
            Box::new(move || o.try_get_value().map(|v| conv(&v)))
        }),
        expected: Box::new(expected),
        reader: None,
        processed: None,
        outer_dirty: false,
    });
}

/// the operators every map type supports
fn build_generic<M>(ops: &mut Vec<OpRec>, log: &Log, input: &Incr<M>)
where
    M: TestMap + SymmetricFoldMap<i64, i64> + SymmetricMapMap<i64, i64, OutputMap<i64> = M>,
{
    let n = M::NAME;
    let conv = |m: &M| Out::Map(m.to_b());
    {
        let (l, id) = (log.clone(), ops.len());
        let node = input.incr_map(move |v: &i64| {
            l.borrow_mut().push((id, -1, "f"));
            f_map(*v)
        });
        op(ops, format!("incr_map<{n}>"), OpKind::Diff, "C15", node, conv, |i| {
            Out::Map(i.left.iter().map(|(k, v)| (*k, f_map(*v))).collect())
        });
    }
    {
        let (l, id) = (log.clone(), ops.len());
        let node = input.incr_filter_map(move |v: &i64| {
            l.borrow_mut().push((id, -1, "f"));
            f_filter(*v)
        });
        op(ops, format!("incr_filter_map<{n}>"), OpKind::Diff, "C15", node, conv, |i| {
            Out::Map(i.left.iter().filter_map(|(k, v)| f_filter(*v).map(|x| (*k, x))).collect())
        });
    }
    {
        let (l, id) = (log.clone(), ops.len());
        let node = input.incr_mapi(move |k: &i64, v: &i64| {
            l.borrow_mut().push((id, *k, "f"));
            f_mapi(*k, *v)
        });
        op(ops, format!("incr_mapi<{n}>"), OpKind::Diff, "C15", node, conv, |i| {
            Out::Map(i.left.iter().map(|(k, v)| (*k, f_mapi(*k, *v))).collect())
        });
    }
    {
        let (l, id) = (log.clone(), ops.len());
        let node = input.incr_filter_mapi(move |k: &i64, v: &i64| {
            l.borrow_mut().push((id, *k, "f"));
            f_filter_mapi(*k, *v)
        });
        op(ops, format!("incr_filter_mapi<{n}>"), OpKind::Diff, "C15", node, conv, |i| {
            Out::Map(i.left.iter().filter_map(|(k, v)| f_filter_mapi(*k, *v).map(|x| (*k, x))).collect())
        });
    }
    {
        let filtered = input.incr_filter_map(|v: &i64| f_filter(*v));
        let node = filtered.incr_unordered_fold(0i64, |acc, k: &i64, v: &i64| acc + w(*k, *v), |acc, k: &i64, v: &i64| acc - w(*k, *v), false);
        op(ops, format!("incr_filter_map<{n}> -> incr_unordered_fold"), OpKind::Chained, "C15", node, |x: &i64| Out::Int(*x), |i| {
            Out::Int(i.left.iter().filter_map(|(k, v)| f_filter(*v).map(|x| w(*k, x))).sum::<i64>())
        });
        let mapped = input.incr_filter_mapi(|k: &i64, v: &i64| f_filter_mapi(*k, *v));
        let node = mapped.incr_mapi(|k: &i64, v: &i64| k + v);
        op(ops, format!("incr_filter_mapi<{n}> -> incr_mapi"), OpKind::Chained, "C15", node, conv, |i| {
            Out::Map(i.left.iter().filter_map(|(k, v)| f_filter_mapi(*k, *v).map(|x| (*k, k + x))).collect())
        });
    }
    for revert in [false, true] {
        {
            let (l, id) = (log.clone(), ops.len());
            let l2 = l.clone();
            let node = input.incr_unordered_fold(
                7i64,
                move |acc, k: &i64, v: &i64| {
                    l.borrow_mut().push((id, *k, "add"));
                    acc + w(*k, *v)
                },
                move |acc, k: &i64, v: &i64| {
                    l2.borrow_mut().push((id, *k, "remove"));
                    acc - w(*k, *v)
                },
                revert,
            );
            op(ops, format!("incr_unordered_fold<{n}>(revert={revert})"), OpKind::Fold { update: false }, "C15", node, |x: &i64| Out::Int(*x), |i| {
                Out::Int(7 + i.left.iter().map(|(k, v)| w(*k, *v)).sum::<i64>())
            });
        }
        {
            let (l, id) = (log.clone(), ops.len());
            let (l2, l3) = (l.clone(), l.clone());
            let node = input.incr_unordered_fold_update(
                7i64,
                move |acc, k: &i64, v: &i64| {
                    l.borrow_mut().push((id, *k, "add"));
                    acc + w(*k, *v)
                },
                move |acc, k: &i64, v: &i64| {
                    l2.borrow_mut().push((id, *k, "remove"));
                    acc - w(*k, *v)
                },
                move |acc, k: &i64, old: &i64, new: &i64| {
                    l3.borrow_mut().push((id, *k, "update"));
                    acc - w(*k, *old) + w(*k, *new)
                },
                revert,
            );
            op(ops, format!("incr_unordered_fold_update<{n}>(revert={revert})"), OpKind::Fold { update: true }, "C15", node, |x: &i64| Out::Int(*x), |i| {
                Out::Int(7 + i.left.iter().map(|(k, v)| w(*k, *v)).sum::<i64>())
            });
        }
    }
}


fn w0(k: i64, v: i64) -> i64 {
    // weights of either sign: the folded value can pass through its initial value on a non-empty map
    (v - 2) * (k + 1)
}

/// folds whose accumulator can return to the initial value while the input is not empty, a fold
/// built with `ClosureFold` (update + initial closures), and plain consumers downstream of folds
fn build_more_folds<M>(ops: &mut Vec<OpRec>, log: &Log, input: &Incr<M>)
where
    M: TestMap + SymmetricFoldMap<i64, i64> + SymmetricMapMap<i64, i64, OutputMap<i64> = M>,
{
    let n = M::NAME;
    for revert in [false, true] {
        let (l, id) = (log.clone(), ops.len());
        let l2 = l.clone();
        let node = input.incr_unordered_fold(
            0i64,
            move |acc, k: &i64, v: &i64| {
                l.borrow_mut().push((id, *k, "add"));
                acc + w0(*k, *v)
            },
            move |acc, k: &i64, v: &i64| {
                l2.borrow_mut().push((id, *k, "remove"));
                acc - w0(*k, *v)
            },
            revert,
        );
        // the downstream consumer hangs off a fold of its own (unlogged), so that observing it does
        // not make the logged one run
        let down = input
            .incr_unordered_fold(0i64, |acc, k: &i64, v: &i64| acc + w0(*k, *v), |acc, k: &i64, v: &i64| acc - w0(*k, *v), revert)
            .map(|x| x * 2 + 1);
        op(ops, format!("incr_unordered_fold<{n}>(zero-sum, revert={revert})"), OpKind::Fold { update: false }, "C15", node, |x: &i64| Out::Int(*x), |i| {
            Out::Int(i.left.iter().map(|(k, v)| w0(*k, *v)).sum::<i64>())
        });
        op(ops, format!("incr_unordered_fold<{n}>(zero-sum, revert={revert}) -> map"), OpKind::Chained, "C15", down, |x: &i64| Out::Int(*x), |i| {
            Out::Int(i.left.iter().map(|(k, v)| w0(*k, *v)).sum::<i64>() * 2 + 1)
        });
    }
    for revert in [false, true] {
        // an accumulator keyed by the map key (a copy of the map), without an update function:
        // a value change of a surviving key is remove-old followed by add-new, in that order
        let (l, id) = (log.clone(), ops.len());
        let l2 = l.clone();
        let node = input.incr_unordered_fold(
            B::new(),
            move |mut acc: B, k: &i64, v: &i64| {
                l.borrow_mut().push((id, *k, "add"));
                acc.insert(*k, *v);
                acc
            },
            move |mut acc: B, k: &i64, _v: &i64| {
                l2.borrow_mut().push((id, *k, "remove"));
                acc.remove(k);
                acc
            },
            revert,
        );
        op(ops, format!("incr_unordered_fold<{n}>(copy of the map, revert={revert})"), OpKind::Fold { update: false }, "C15", node, |x: &B| Out::Map(x.clone()), |i| Out::Map(i.left.clone()));
    }
    {
        let (l, id) = (log.clone(), ops.len());
        let (l2, l3, l4) = (l.clone(), l.clone(), l.clone());
        let fold = ClosureFold::new_add_remove(
            move |acc: i64, k: &i64, v: &i64| {
                l.borrow_mut().push((id, *k, "add"));
                acc + w0(*k, *v)
            },
            move |acc: i64, k: &i64, v: &i64| {
                l2.borrow_mut().push((id, *k, "remove"));
                acc - w0(*k, *v)
            },
        )
        .update(move |acc: i64, k: &i64, old: &i64, new: &i64| {
            l3.borrow_mut().push((id, *k, "update"));
            acc - w0(*k, *old) + w0(*k, *new)
        })
        .initial(move |acc: i64, m: &M| {
            l4.borrow_mut().push((id, -2, "initial"));
            acc + m.to_b().iter().map(|(k, v)| w0(*k, *v)).sum::<i64>()
        })
        .revert_to_init_when_empty(true);
        let node = input.incr_unordered_fold_with(0i64, fold);
        let down = input
            .incr_unordered_fold_with(
                0i64,
                ClosureFold::new_add_remove(|acc: i64, k: &i64, v: &i64| acc + w0(*k, *v), |acc: i64, k: &i64, v: &i64| acc - w0(*k, *v))
                    .revert_to_init_when_empty(true),
            )
            .map(|x| x - 3);
        op(ops, format!("incr_unordered_fold_with<{n}>(ClosureFold, revert=true)"), OpKind::Fold { update: true }, "C15", node, |x: &i64| Out::Int(*x), |i| {
            Out::Int(i.left.iter().map(|(k, v)| w0(*k, *v)).sum::<i64>())
        });
        op(ops, format!("incr_unordered_fold_with<{n}>(ClosureFold, revert=true) -> map"), OpKind::Chained, "C15", down, |x: &i64| Out::Int(*x), |i| {
            Out::Int(i.left.iter().map(|(k, v)| w0(*k, *v)).sum::<i64>() - 3)
        });
    }
}

struct PerKeyEnv {
    outer: Var<i64>,
    alt: Var<i64>,
    shared: Incr<i64>,
    konst: Incr<i64>,
}

/// expected per-entry value of user function family member `fam`
fn perkey_expected(fam: usize, k: i64, v: i64, i: &Inputs) -> i64 {
    match fam {
        0 => v * 3 + k,
        1 => v + i.outer,
        2 => {
            if v % 2 == 0 { i.alt + 1000 } else { i.outer * 2 + k }
        }
        3 => 5,
        4 => i.outer / 2 + 7,
        _ => {
            if i.outer % 2 == 0 { v } else { i.alt * 100 }
        }
    }
}

macro_rules! perkey_ops {
    ($ops:ident, $log:ident, $input:ident, $env:ident, $name:expr, $conv:expr) => {{
        for fam in 0..6usize {
            for variant in 0..3usize {
                // variant 0: incr_mapi_, 1: incr_filter_mapi_, 2: incr_mapi_cutoff (transparent cutoff)
                if variant == 2 && fam > 1 {
                    continue;
                }
                let id = $ops.len();
                let l = $log.clone();
                let (outer, alt, shared, konst) = ($env.outer.clone(), $env.alt.clone(), $env.shared.clone(), $env.konst.clone());
                let user = move |k: &i64, v: Incr<i64>| -> Incr<i64> {
                    l.borrow_mut().push((id, *k, "builder"));
                    let key = *k;
                    let l2 = l.clone();
                    match fam {
                        0 => v.map(move |x| {
                            l2.borrow_mut().push((id, key, "inner"));
                            x * 3 + key
                        }),
                        1 => v.map2(&outer, move |x, o| {
                            l2.borrow_mut().push((id, key, "inner"));
                            x + o
                        }),
                        2 => {
                            let (alt, outer) = (alt.clone(), outer.clone());
                            v.bind(move |x| {
                                l2.borrow_mut().push((id, key, "inner"));
                                if x % 2 == 0 { alt.map(|a| a + 1000) } else { outer.map(move |o| o * 2 + key) }
                            })
                        }
                        3 => konst.clone(),
                        4 => shared.clone(),
                        _ => {
                            // the per-key input is only connected while the outer switch is even
                            let alt = alt.clone();
                            outer.bind(move |o| {
                                l2.borrow_mut().push((id, key, "inner"));
                                if o % 2 == 0 { v.clone() } else { alt.map(|a| a * 100) }
                            })
                        }
                    }
                };
                let kind = OpKind::PerKey { uses_outer: fam == 1 || fam == 2 || fam >= 4, ignores_input: fam == 3 || fam == 4 };
                match variant {
                    0 => {
                        let node = $input.incr_mapi_(user);
                        op($ops, format!("incr_mapi_<{}>(fn{fam})", $name), kind, "C16", node, $conv, move |i| {
                            Out::Map(i.left.iter().map(|(k, v)| (*k, perkey_expected(fam, *k, *v, i))).collect())
                        });
                    }
                    1 => {
                        let mut user = user;
                        let node = $input.incr_filter_mapi_(move |k: &i64, v: Incr<i64>| {
                            let key = *k;
                            user(k, v).map(move |x| if (x + key) % 3 == 0 { None } else { Some(*x) })
                        });
                        op($ops, format!("incr_filter_mapi_<{}>(fn{fam})", $name), kind, "C16", node, $conv, move |i| {
                            Out::Map(
                                i.left
                                    .iter()
                                    .filter_map(|(k, v)| {
                                        let x = perkey_expected(fam, *k, *v, i);
                                        if (x + k) % 3 == 0 { None } else { Some((*k, x)) }
                                    })
                                    .collect(),
                            )
                        });
                    }
                    _ => {
                        let node = $input.incr_mapi_cutoff(user, if fam == 0 { Cutoff::Never } else { Cutoff::Fn(|a, b| a == b) });
                        op($ops, format!("incr_mapi_cutoff<{}>(fn{fam})", $name), kind, "C16", node, $conv, move |i| {
                            Out::Map(i.left.iter().map(|(k, v)| (*k, perkey_expected(fam, *k, *v, i))).collect())
                        });
                        let id2 = $ops.len();
                        let l3 = $log.clone();
                        let node = $input.incr_filter_mapi_cutoff(
                            move |k: &i64, v: Incr<i64>| {
                                l3.borrow_mut().push((id2, *k, "builder"));
                                let key = *k;
                                let l4 = l3.clone();
                                v.map(move |x| {
                                    l4.borrow_mut().push((id2, key, "inner"));
                                    if x % 2 == 0 { Some(x + key) } else { None }
                                })
                            },
                            Cutoff::PartialEq,
                        );
                        op($ops, format!("incr_filter_mapi_cutoff<{}>", $name), OpKind::PerKey { uses_outer: false, ignores_input: false }, "C16", node, $conv, move |i| {
                            Out::Map(i.left.iter().filter_map(|(k, v)| if v % 2 == 0 { Some((*k, v + k)) } else { None }).collect())
                        });
                    }
                }
            }
        }
        // the `_cutoff` variants with a cutoff that suppresses *unequal* values (a tolerance, which
        // is not even transitive): the per-key function of a key is re-run exactly when that
        // key's value moved by more than the tolerance since the operator last looked at it
        for filt in [false, true] {
            let id = $ops.len();
            let l = $log.clone();
            let user = move |k: &i64, v: Incr<i64>| -> Incr<i64> {
                l.borrow_mut().push((id, *k, "builder"));
                let key = *k;
                let l2 = l.clone();
                v.map(move |x| {
                    l2.borrow_mut().push((id, key, "inner"));
                    x * 3 + key
                })
            };
            fn tol(a: &i64, b: &i64) -> bool {
                (a - b).abs() <= 1
            }
            // (input as of the last round in which the operator was computed, value each key's function last ran with)
            let state: Rc<RefCell<(B, B)>> = Rc::new(RefCell::new((B::new(), B::new())));
            let expected = move |i: &Inputs| {
                let mut st = state.borrow_mut();
                let (prev, seen) = &mut *st;
                seen.retain(|k, _| i.left.contains_key(k));
                for (k, v) in &i.left {
                    match prev.get(k) {
                        Some(p) if seen.contains_key(k) => {
                            if !tol(p, v) {
                                seen.insert(*k, *v);
                            }
                        }
                        _ => {
                            seen.insert(*k, *v);
                        }
                    }
                }
                *prev = i.left.clone();
                Out::Map(seen.iter().map(|(k, s)| (*k, s * 3 + k)).filter(|(_, x)| !filt || x % 2 == 0).collect())
            };
            let kind = OpKind::PerKey { uses_outer: false, ignores_input: false };
            if !filt {
                let node = $input.incr_mapi_cutoff(user, Cutoff::Fn(tol));
                op($ops, format!("incr_mapi_cutoff<{}>(tolerance)", $name), kind, "C16", node, $conv, expected);
            } else {
                let mut user = user;
                let node = $input.incr_filter_mapi_cutoff(move |k: &i64, v: Incr<i64>| user(k, v).map(|x| if x % 2 == 0 { Some(*x) } else { None }), Cutoff::Fn(tol));
                op($ops, format!("incr_filter_mapi_cutoff<{}>(tolerance)", $name), kind, "C16", node, $conv, expected);
            }
        }
    }};
}

pub struct Outcome {
    pub violations: Vec<(&'static str, String)>,
    pub actions: Vec<String>,
    pub nontrivial15: bool,
    pub nontrivial16: bool,
    pub nontrivial17: bool,
    pub reads: u64,
    pub fn_events: u64,
    /// user-function calls of each stabilise, in order
    pub stab_events: Vec<u64>,
    /// fault mode: the injected panic was reached; role of the user function that panicked
    pub fault_kind: Option<&'static str>,
}

pub fn run_history(seed: u64, which: &str) -> Outcome {
    run_history_fault(seed, which, None)
}

/// `fault = Some((s, n))`: the n-th user-function call of the s-th stabilise panics (C13)
pub fn run_history_fault(seed: u64, which: &str, fault: Option<(usize, u64)>) -> Outcome {
    let mut o = Outcome { violations: vec![], actions: vec![], nontrivial15: false, nontrivial16: false, nontrivial17: false, reads: 0, fn_events: 0, stab_events: vec![], fault_kind: None };
    let r = catch_unwind(AssertUnwindSafe(|| inner(seed, which, &mut o, fault)));
    if let Err(e) = r {
        let prop = if which == "perkey" { "C16" } else { "C15" };
        o.violations.push((prop, format!("panic: {}", crate::panic_message(e))));
    }
    o
}

fn diff_keys(a: &B, b: &B) -> BTreeSet<i64> {
    a.keys().chain(b.keys()).copied().filter(|k| a.get(k) != b.get(k)).collect()
}

fn inner(seed: u64, which: &str, out: &mut Outcome, fault: Option<(usize, u64)>) {
    let mut rng = Rng::new(seed);
    let st = IncrState::new();
    let log: Log = LogInner::new();
    let mut cur = Inputs { left: B::new(), right: B::new(), outer: 1, alt: 2 };
    for _ in 0..rng.below(5) {
        cur.left.insert(rng.range(0, 7), rng.range(0, 4));
        cur.right.insert(rng.range(0, 7), rng.range(0, 4));
    }
    let vb = st.var(cur.left.clone());
    let vb_r = st.var(cur.right.clone());
    let vrc = st.var(Rc::new(cur.left.clone()));
    let vom = st.var(<OrdMap<i64, i64> as TestMap>::from_b(&cur.left));
    let vom_r = st.var(<OrdMap<i64, i64> as TestMap>::from_b(&cur.right));
    if rng.chance(1, 2) {
        // inputs that fire even when the map they carry did not change (as an upstream operator would)
        vb.set_cutoff(Cutoff::Never);
        vrc.set_cutoff(Cutoff::Never);
        vom.set_cutoff(Cutoff::Never);
        vb_r.set_cutoff(Cutoff::Never);
        vom_r.set_cutoff(Cutoff::Never);
    }
    // in some histories other consumers keep some of the inputs necessary throughout, so that an
    // operator that is observed again finds inputs that are already up to date
    let mut _keepers: Vec<Box<dyn std::any::Any>> = vec![];
    if rng.chance(1, 3) {
        _keepers.push(Box::new(vb_r.observe()));
        _keepers.push(Box::new(vom_r.observe()));
    }
    if rng.chance(1, 4) {
        _keepers.push(Box::new(vb.observe()));
        _keepers.push(Box::new(vrc.observe()));
        _keepers.push(Box::new(vom.observe()));
    }
    let env = PerKeyEnv { outer: st.var(cur.outer), alt: st.var(cur.alt), shared: st.constant(0), konst: st.constant(5i64) };
    let shared_src = env.outer.map(|o| o / 2 + 7);
    let env = PerKeyEnv { shared: shared_src, ..env };
    let mut ops: Vec<OpRec> = vec![];
    let ops_ref = &mut ops;
    if which == "diff" {
        build_generic::<B>(ops_ref, &log, &vb.watch());
        build_generic::<Rc<B>>(ops_ref, &log, &vrc.watch());
        build_generic::<OrdMap<i64, i64>>(ops_ref, &log, &vom.watch());
        build_more_folds::<B>(ops_ref, &log, &vb.watch());
        build_more_folds::<Rc<B>>(ops_ref, &log, &vrc.watch());
        build_more_folds::<OrdMap<i64, i64>>(ops_ref, &log, &vom.watch());
        // merge on the two types that have it
        {
            let (l, id) = (log.clone(), ops_ref.len());
            let node = vb.watch().incr_merge(&vb_r.watch(), move |k: &i64, m| {
                l.borrow_mut().push((id, *k, "merge"));
                f_merge(*k, m)
            });
            op(ops_ref, "incr_merge<BTreeMap>".into(), OpKind::Merge, "C15", node, |m: &B| Out::Map(m.clone()), |i| Out::Map(plain_merge(&i.left, &i.right)));
        }
        {
            let (l, id) = (log.clone(), ops_ref.len());
            let node = vom.watch().incr_merge(&vom_r.watch(), move |k: &i64, m| {
                l.borrow_mut().push((id, *k, "merge"));
                f_merge(*k, m)
            });
            op(ops_ref, "incr_merge<OrdMap>".into(), OpKind::Merge, "C15", node, |m: &OrdMap<i64, i64>| Out::Map(m.to_b()), |i| Out::Map(plain_merge(&i.left, &i.right)));
        }
        // partition (OrdMap only)
        {
            let (l, id) = (log.clone(), ops_ref.len());
            let node = vom.watch().incr_partition(move |k: &i64, v: &i64| {
                l.borrow_mut().push((id, *k, "f"));
                (k + v) % 2 == 0
            });
            op(ops_ref, "incr_partition<OrdMap>".into(), OpKind::Diff, "C15", node, |p: &(OrdMap<i64, i64>, OrdMap<i64, i64>)| Out::Pair(p.0.to_b(), p.1.to_b()), |i| {
                let (a, b): (B, B) = i.left.iter().map(|(k, v)| (*k, *v)).partition(|(k, v)| (k + v) % 2 == 0);
                Out::Pair(a, b)
            });
        }
        {
            let (l, id) = (log.clone(), ops_ref.len());
            let node = vom.watch().incr_partition_mapi(move |k: &i64, v: &i64| {
                l.borrow_mut().push((id, *k, "f"));
                if v % 2 == 0 { Either::Left(k * 10 + v) } else { Either::Right(v - k) }
            });
            op(ops_ref, "incr_partition_mapi<OrdMap>".into(), OpKind::Diff, "C15", node, |p: &(OrdMap<i64, i64>, OrdMap<i64, i64>)| Out::Pair(p.0.to_b(), p.1.to_b()), |i| {
                let mut a = B::new();
                let mut b = B::new();
                for (k, v) in &i.left {
                    if v % 2 == 0 {
                        a.insert(*k, k * 10 + v);
                    } else {
                        b.insert(*k, v - k);
                    }
                }
                Out::Pair(a, b)
            });
        }
    } else {
        let ib = vb.watch();
        let io = vom.watch();
        perkey_ops!(ops_ref, log, ib, env, "BTreeMap", |m: &B| Out::Map(m.clone()));
        perkey_ops!(ops_ref, log, io, env, "OrdMap", |m: &OrdMap<i64, i64>| Out::Map(m.to_b()));
    }
    // only a random subset of the operators takes part in each history (keeps histories short)
    let mut active: Vec<usize> = (0..ops.len()).filter(|_| rng.chance(1, 3)).collect();
    if active.is_empty() {
        active.push(rng.below(ops.len()));
    }
    for i in &active {
        if rng.chance(3, 4) {
            ops[*i].reader = Some((ops[*i].observe)());
        }
    }
    let n_actions = 20 + rng.below(50);
    let lazy = rng.chance(1, 2);
    let mut saw_empty = false;
    let mut reobserved_after_change = false;
    let mut removed_key = false;
    let mut changed_survivor = false;
    // scripted steps: (0, i) unobserve operator i, (1, _) edit the right input only, (2, _) stabilise,
    // (3, i) observe operator i again
    let mut plan: std::collections::VecDeque<(u8, usize)> = Default::default();
    for _ in 0..n_actions {
        let mut code = rng.below(14);
        if let Some((step, i)) = plan.pop_front() {
            match step {
                0 => {
                    ops[i].reader = None;
                    out.actions.push(format!("unobserve {}", ops[i].name));
                    continue;
                }
                1 => {
                    let (k, v) = (rng.range(0, 7), rng.range(0, 4));
                    if cur.right.get(&k) == Some(&v) {
                        cur.right.remove(&k);
                    } else {
                        cur.right.insert(k, v);
                    }
                    out.actions.push(format!("R[{k}]~{v} (only the right input changes)"));
                    continue;
                }
                3 => {
                    if ops[i].reader.is_none() {
                        ops[i].reader = Some((ops[i].observe)());
                        reobserved_after_change = true;
                        out.actions.push(format!("observe {}", ops[i].name));
                    }
                    continue;
                }
                _ => code = 13,
            }
        } else if code == 5 && rng.chance(1, 2) {
            // a two-input operator is unobserved while only its second input changes
            let merges: Vec<usize> = active.iter().copied().filter(|i| matches!(ops[*i].kind, OpKind::Merge) && ops[*i].reader.is_some()).collect();
            if !merges.is_empty() && vb.get() == cur.left {
                let i = *rng.pick(&merges);
                plan.extend([(2u8, 0usize), (0, i), (1, 0), (2, 0), (3, i), (2, 0)]);
                continue;
            }
        }
        match code {
            0 | 1 | 2 => {
                let (k, v) = (rng.range(0, 7), rng.range(0, 4));
                if cur.left.contains_key(&k) {
                    changed_survivor = true;
                }
                cur.left.insert(k, v);
                out.actions.push(format!("L[{k}]={v}"));
            }
            3 => {
                let k = rng.range(0, 7);
                if cur.left.remove(&k).is_some() {
                    removed_key = true;
                }
                out.actions.push(format!("L.remove({k})"));
            }
            4 => {
                if rng.chance(1, 2) {
                    cur.left.clear();
                    saw_empty = true;
                    out.actions.push("L.clear()".into());
                } else {
                    cur.left = (0..rng.below(8)).map(|_| (rng.range(0, 7), rng.range(0, 4))).collect();
                    out.actions.push(format!("L:={:?}", cur.left));
                }
            }
            5 => {
                let (k, v) = (rng.range(0, 7), rng.range(0, 4));
                if rng.chance(1, 3) {
                    cur.right.remove(&k);
                } else {
                    cur.right.insert(k, v);
                }
                out.actions.push(format!("R[{k}]~{v}"));
            }
            6 => {
                cur.outer = rng.range(0, 9);
                out.actions.push(format!("outer={}", cur.outer));
            }
            7 => {
                cur.alt = rng.range(0, 9);
                out.actions.push(format!("alt={}", cur.alt));
            }
            8 | 9 => {
                if rng.chance(1, 6) {
                    // nothing at all keeps the inputs necessary for a while
                    for i in &active {
                        ops[*i].reader = None;
                    }
                    out.actions.push("unobserve everything".into());
                    continue;
                }
                let i = *rng.pick(&active);
                if ops[i].reader.is_some() {
                    ops[i].reader = None;
                    out.actions.push(format!("unobserve {}", ops[i].name));
                } else {
                    ops[i].reader = Some((ops[i].observe)());
                    if ops[i].processed.as_ref().map_or(false, |p| p.left != cur.left || p.right != cur.right) {
                        reobserved_after_change = true;
                    }
                    out.actions.push(format!("observe {}", ops[i].name));
                }
            }
            _ => {
                // write the inputs in one of several equivalent ways, then stabilise (in "lazy"
                // histories an input that did not change is not written again, so a write made
                // while everything was unobserved is the last one before re-observation)
                let how = if lazy && vb.get() == cur.left { 3 } else { rng.below(3) };
                match how {
                    3 => {}
                    0 => {
                        vb.set(cur.left.clone());
                        vrc.set(Rc::new(cur.left.clone()));
                        vom.set(TestMap::from_b(&cur.left));
                    }
                    1 => {
                        // in-place edits towards the target keep structural sharing
                        let target = cur.left.clone();
                        vb.modify(|m| *m = target.clone());
                        let t2 = target.clone();
                        vrc.modify(move |m| {
                            let inner = Rc::make_mut(m);
                            inner.retain(|k, _| t2.contains_key(k));
                            for (k, v) in &t2 {
                                inner.insert(*k, *v);
                            }
                        });
                        let t3 = target.clone();
                        vom.modify(move |m| {
                            let keys: Vec<i64> = m.keys().copied().collect();
                            for k in keys {
                                if !t3.contains_key(&k) {
                                    m.remove(&k);
                                }
                            }
                            for (k, v) in &t3 {
                                if m.get(k) != Some(v) {
                                    m.insert(*k, *v);
                                }
                            }
                        });
                    }
                    _ => {
                        // replace by an equal map / a shared clone when nothing changed
                        if vb.get() != cur.left {
                            vb.set(cur.left.clone());
                            vrc.set(Rc::new(cur.left.clone()));
                            vom.set(TestMap::from_b(&cur.left));
                        } else {
                            vb.set(cur.left.clone());
                            let same = vrc.get();
                            vrc.set(same);
                            let same = vom.get();
                            vom.set(same.shared_clone());
                        }
                    }
                }
                if !(lazy && vb_r.get() == cur.right) {
                    vb_r.set(cur.right.clone());
                    vom_r.set(TestMap::from_b(&cur.right));
                }
                if env.outer.get() != cur.outer || env.alt.get() != cur.alt {
                    for o in ops.iter_mut() {
                        o.outer_dirty = true;
                    }
                }
                if !(lazy && env.outer.get() == cur.outer) {
                    env.outer.set(cur.outer);
                }
                if !(lazy && env.alt.get() == cur.alt) {
                    env.alt.set(cur.alt);
                }
                log.borrow_mut().clear();
                if let Some((s, off)) = fault {
                    if s == out.stab_events.len() {
                        log.arm(off);
                    }
                }
                if let Err(e) = catch_unwind(AssertUnwindSafe(|| st.stabilise())) {
                    if e.downcast_ref::<crate::core::rt::InjectedPanic>().is_none() {
                        std::panic::resume_unwind(e);
                    }
                    // ---- C13: a panic in a user function of a map operator escaped stabilise ----
                    let kind = log.borrow().last().map(|e| e.2).unwrap_or("?");
                    out.fault_kind = Some(kind);
                    let mut read_all = |when: &str, out: &mut Outcome| {
                        for i in &active {
                            let Some(reader) = &ops[*i].reader else { continue };
                            out.reads += 1;
                            match catch_unwind(AssertUnwindSafe(|| reader())) {
                                Ok(Err(_)) => {}
                                Ok(Ok(v)) => out.violations.push(("C13", format!("{when}, the observer of {} still returns {:?} (possibly half-propagated)", ops[*i].name, v))),
                                Err(p) => out.violations.push(("C13", format!("{when}, reading the observer of {} panicked: {}", ops[*i].name, crate::panic_message(p)))),
                            }
                        }
                    };
                    read_all(&format!("after a panic in a `{kind}` function escaped stabilise"), out);
                    log.borrow_mut().clear();
                    let again = catch_unwind(AssertUnwindSafe(|| st.stabilise()));
                    let ran = log.borrow().len();
                    if again.is_ok() {
                        out.violations.push(("C13", format!("a further stabilise after the escaped panic (in `{kind}`) returned normally ({ran} user functions ran)")));
                    } else if ran > 0 {
                        out.violations.push(("C13", format!("a further stabilise after the escaped panic ran {ran} user function(s) before failing")));
                    }
                    read_all("after the refused second stabilise", out);
                    // every handle and the state are dropped, in a random order
                    let mut things: Vec<(String, Box<dyn std::any::Any>)> = vec![];
                    for o in ops.drain(..) {
                        let OpRec { name, observe, reader, .. } = o;
                        things.push((format!("the node handle of {name}"), Box::new(observe)));
                        if let Some(r) = reader {
                            things.push((format!("the observer of {name}"), Box::new(r)));
                        }
                    }
                    things.push(("an input variable".into(), Box::new((vb, vrc))));
                    things.push(("an input variable".into(), Box::new((vom, vb_r, vom_r))));
                    things.push(("the other consumers' observers".into(), Box::new(_keepers)));
                    things.push(("the outer variables".into(), Box::new(env)));
                    things.push(("the state".into(), Box::new(st)));
                    let mut tr = Rng::new(mix(seed, 0x7ea2 ^ fault.map_or(0, |f| f.1)));
                    tr.shuffle(&mut things);
                    for (what, t) in things {
                        if let Err(p) = catch_unwind(AssertUnwindSafe(move || drop(t))) {
                            out.violations.push(("C13", format!("dropping {what} after the escaped panic panicked again: {}", crate::panic_message(p))));
                        }
                    }
                    return;
                }
                out.actions.push("stabilise".into());
                let events = log.borrow().clone();
                out.stab_events.push(events.len() as u64);
                out.fn_events += events.len() as u64;
                for i in &active {
                    let o = &mut ops[*i];
                    let Some(reader) = &o.reader else {
                        if events.iter().any(|e| e.0 == o.id) {
                            out.violations.push(("C17", format!("{}: user functions ran although the operator is not observed: {:?}", o.name, events.iter().filter(|e| e.0 == o.id).collect::<Vec<_>>())));
                        }
                        continue;
                    };
                    out.reads += 1;
                    let got = reader();
                    let exp = (o.expected)(&cur);
                    if got.as_ref() != Ok(&exp) {
                        out.violations.push((o.prop, format!("{} returned {:?}, its plain definition gives {:?} (inputs {:?})", o.name, got, exp, cur)));
                    }
                    // ---- work accounting (C17) ----
                    let mine: Vec<(i64, &'static str)> = events.iter().filter(|e| e.0 == o.id).map(|e| (e.1, e.2)).collect();
                    let first = o.processed.is_none();
                    let prev = o.processed.clone().unwrap_or(Inputs { left: B::new(), right: B::new(), outer: cur.outer, alt: cur.alt });
                    let dl = diff_keys(&prev.left, &cur.left);
                    let dr = diff_keys(&prev.right, &cur.right);
                    let mut seen: BTreeSet<(i64, &'static str)> = BTreeSet::new();
                    let mut dups = vec![];
                    for e in &mine {
                        if e.0 >= 0 && !seen.insert(*e) {
                            dups.push(*e);
                        }
                    }
                    let outer_changed = prev.outer != cur.outer || prev.alt != cur.alt || o.outer_dirty;
                    let bad: Vec<&(i64, &'static str)> = match o.kind {
                        OpKind::Chained => vec![],
                        OpKind::Diff | OpKind::Fold { .. } => mine.iter().filter(|e| e.0 >= 0 && !dl.contains(&e.0)).collect(),
                        OpKind::Merge => mine.iter().filter(|e| !dl.contains(&e.0) && !dr.contains(&e.0)).collect(),
                        OpKind::PerKey { uses_outer, .. } => mine
                            .iter()
                            .filter(|e| match e.1 {
                                "builder" => !(dl.contains(&e.0) && !prev.left.contains_key(&e.0)),
                                _ => !(dl.contains(&e.0) || (uses_outer && outer_changed) || first),
                            })
                            .collect(),
                    };
                    // the `initial` closure of a ClosureFold only ever runs for the first computation
                    let initial_calls = mine.iter().filter(|e| e.1 == "initial").count();
                    // (or when it is re-initialised from an empty input: every key differs then anyway)
                    if initial_calls > 0 && !first && !prev.left.is_empty() {
                        out.violations.push(("C17", format!("{}: the fold's `initial` closure ran again ({initial_calls} call(s)) although the operator had already processed {:?}; current input {:?}", o.name, prev.left, cur.left)));
                    }
                    // operators whose function does not see the key: bound the number of calls instead
                    let anon = mine.iter().filter(|e| e.0 < 0 && e.1 != "initial").count();
                    if anon > dl.len() {
                        out.violations.push(("C17", format!("{}: user function called {anon} times for {} differing keys ({:?} -> {:?})", o.name, dl.len(), prev.left, cur.left)));
                    }
                    if !bad.is_empty() {
                        out.violations.push(("C17", format!("{}: user functions ran for keys that did not change: {:?} (previous input {:?}/{:?}, current {:?}/{:?})", o.name, bad, prev.left, prev.right, cur.left, cur.right)));
                    }
                    if !dups.is_empty() && !matches!(o.kind, OpKind::PerKey { .. }) {
                        out.violations.push(("C17", format!("{}: user function ran more than once for {:?} in one stabilise", o.name, dups)));
                    }
                    if let OpKind::PerKey { .. } = o.kind {
                        let builder_dups: Vec<_> = dups.iter().filter(|d| d.1 == "builder").collect();
                        if !builder_dups.is_empty() {
                            out.violations.push(("C17", format!("{}: per-key builder ran more than once for {:?}", o.name, builder_dups)));
                        }
                    }
                    if !dl.is_empty() && dl.len() < cur.left.len().max(prev.left.len()) {
                        out.nontrivial17 = true;
                    }
                    o.processed = Some(cur.clone());
                    o.outer_dirty = false;
                }
            }
        }
    }
    out.nontrivial15 = saw_empty && reobserved_after_change;
    out.nontrivial16 = removed_key && changed_survivor;
    for o in ops.iter_mut() {
        o.reader = None;
    }
    st.stabilise();
}

/// C13 over the map operators: for one stabilise per history, a panic at every user-function call
pub fn run_faults(which: &str, seed: u64, shard: u64, start: u64, count: u64, cap: u64, progress: Option<&str>) -> J {
    let (mut points, mut inside, mut histories) = (0u64, 0u64, 0u64);
    let mut kinds: std::collections::BTreeMap<String, u64> = Default::default();
    let mut violations = vec![];
    let mut samples = vec![];
    for i in start..count {
        let hseed = mix(mix(seed, shard), i);
        let clean = run_history(hseed, which);
        if let Some((p, m)) = clean.violations.first() {
            if violations.len() < 12 {
                violations.push(J::obj(vec![
                    ("property", J::s(*p)),
                    ("message", J::s(format!("maps workload (run without injected panic, before enumerating crash points): {m}"))),
                    ("argv", J::Arr(vec![J::s("maps-one"), J::s(which), J::s(hseed.to_string())])),
                ]));
            }
            continue;
        }
        let cands: Vec<usize> = (0..clean.stab_events.len()).filter(|s| clean.stab_events[*s] > 0).collect();
        if cands.is_empty() {
            continue;
        }
        histories += 1;
        // the first stabilise (everything is initialised), the last one, or one in between
        let s = match i % 3 {
            0 => cands[0],
            1 => *cands.last().unwrap(),
            _ => cands[(mix(hseed, 5) % cands.len() as u64) as usize],
        };
        let n = clean.stab_events[s];
        let offsets: Vec<u64> = if n <= cap { (0..n).collect() } else { (0..cap).map(|j| j * n / cap).collect() };
        for off in offsets {
            if let Some(p) = progress {
                let _ = std::fs::write(p, format!("maps-{which} {i} {hseed} {s} {off}\n"));
            }
            let o = run_history_fault(hseed, which, Some((s, off)));
            let Some(kind) = o.fault_kind else { continue };
            points += 1;
            *kinds.entry(format!("crash_in_map_operator_{kind}")).or_default() += 1;
            if off > 0 && off + 1 < n {
                inside += 1;
            }
            if samples.is_empty() && off > 0 && off + 1 < n {
                samples.push(J::obj(vec![("workload", J::s(format!("maps-{which}"))), ("history_seed", J::s(hseed.to_string())), ("stabilise", J::Int(s as i64)), ("user_function_calls_in_that_stabilise", J::Int(n as i64)), ("panic_at", J::Int(off as i64)), ("kind", J::s(kind))]));
            }
            for (p, m) in o.violations.iter().take(3) {
                if violations.len() < 12 {
                    violations.push(J::obj(vec![
                        ("property", J::s(*p)),
                        ("message", J::s(format!("maps-{which} workload, panic injected at user-function call {off} of stabilise #{s}: {m}"))),
                        ("argv", J::Arr(vec![J::s("maps-fault-one"), J::s(which), J::s(hseed.to_string()), J::s(s.to_string()), J::s(off.to_string())])),
                    ]));
                }
            }
        }
    }
    let mut stats: Vec<(String, J)> = vec![("map_histories_with_a_crashable_stabilise".to_string(), J::Int(histories as i64)), ("map_crash_points_strictly_inside".to_string(), J::Int(inside as i64))];
    for (k, v) in kinds {
        stats.push((k, J::Int(v as i64)));
    }
    J::obj(vec![
        ("workload", J::s(format!("maps-faults-{which}"))),
        ("evaluations", J::Int(points as i64)),
        ("nontrivial", J::Int(inside as i64)),
        ("stats", J::Obj(stats)),
        ("violations", J::Arr(violations)),
        ("samples", J::Arr(samples)),
    ])
}

pub fn run(which: &str, seed: u64, shard: u64, count: u64) -> J {
    let (mut n15, mut n16, mut n17, mut reads, mut fnev) = (0u64, 0u64, 0u64, 0u64, 0u64);
    let mut violations = vec![];
    let mut samples = vec![];
    for i in 0..count {
        let hseed = mix(mix(seed, shard), i);
        let o = run_history(hseed, which);
        reads += o.reads;
        fnev += o.fn_events;
        n15 += o.nontrivial15 as u64;
        n16 += o.nontrivial16 as u64;
        n17 += o.nontrivial17 as u64;
        if samples.is_empty() && (o.nontrivial15 || o.nontrivial16) {
            samples.push(J::Arr(o.actions.iter().map(|a| J::s(a.clone())).collect()));
        }
        for (p, m) in o.violations.iter().take(3) {
            if violations.len() < 12 {
                violations.push(J::obj(vec![
                    ("property", J::s(*p)),
                    ("message", J::s(m.clone())),
                    ("argv", J::Arr(vec![J::s("maps-one"), J::s(which), J::s(hseed.to_string())])),
                ]));
            }
        }
    }
    J::obj(vec![
        ("workload", J::s(format!("maps-{which}"))),
        ("evaluations", J::Int(count as i64)),
        ("nontrivial", J::Int(if which == "perkey" { n16 } else { n15 } as i64)),
        ("stats", J::obj(vec![
            ("operator_outputs_compared", J::Int(reads as i64)),
            ("user_function_events_accounted", J::Int(fnev as i64)),
            ("histories_with_emptying_and_reobservation", J::Int(n15 as i64)),
            ("histories_with_key_removal_and_survivor_change", J::Int(n16 as i64)),
            ("histories_with_partial_diff_round", J::Int(n17 as i64)),
        ])),
        ("violations", J::Arr(violations)),
        ("samples", J::Arr(samples)),
    ])
}
