mod core;
mod directed;
mod json;
mod rng;
mod wl;

use json::J;
use std::panic::{catch_unwind, AssertUnwindSafe};

pub fn panic_message(e: Box<dyn std::any::Any + Send>) -> String {
    if let Some(s) = e.downcast_ref::<&str>() {
        s.to_string()
    } else if let Some(s) = e.downcast_ref::<String>() {
        s.clone()
    } else {
        "<non-string panic payload>".to_string()
    }
}

pub fn quiet_panics() {
    std::panic::set_hook(Box::new(|_| {}));
}

fn run_directed(only: Option<&str>) -> i32 {
    if std::env::var("VH_LOUD").is_err() { quiet_panics(); }
    for sc in directed::all() {
        if let Some(o) = only {
            if o != sc.name {
                continue;
            }
        }
        let r = catch_unwind(AssertUnwindSafe(|| (sc.run)()));
        let (status, detail) = match r {
            Ok(Ok(())) => ("pass", String::new()),
            Ok(Err(msg)) => ("fail", msg),
            Err(e) => ("fail", format!("panic: {}", panic_message(e))),
        };
        let j = J::obj(vec![
            ("scenario", J::s(sc.name)),
            ("props", J::Arr(sc.props.iter().map(|p| J::s(*p)).collect())),
            ("status", J::s(status)),
            ("detail", J::s(detail)),
        ]);
        println!("{}", j.to_string());
    }
    0
}

fn main() {
    let args: Vec<String> = std::env::args().collect();
    let cmd = args.get(1).map(|s| s.as_str()).unwrap_or("");
    let code = match cmd {
        "directed" => {
            let only = args.iter().position(|a| a == "--only").and_then(|i| args.get(i + 1)).map(|s| s.as_str());
            run_directed(only)
        }
        "core" => {
            let get = |name: &str| args.iter().position(|a| a == name).and_then(|i| args.get(i + 1)).cloned();
            let profile = get("--profile").unwrap_or("core".into());
            let prop = get("--prop").unwrap_or("C01".into());
            let seed: u64 = get("--seed").and_then(|s| s.parse().ok()).unwrap_or(1);
            let shard: u64 = get("--shard").and_then(|s| s.parse().ok()).unwrap_or(0);
            let count: u64 = get("--count").and_then(|s| s.parse().ok()).unwrap_or(100);
            let start: u64 = get("--start").and_then(|s| s.parse().ok()).unwrap_or(0);
            let progress = get("--progress");
            if std::env::var("VH_LOUD").is_err() { quiet_panics(); }
            if let Some(h) = get("--history") {
                let hseed: u64 = h.parse().expect("history seed");
                // VH_FAULTCFG: the lighter configuration the fault workloads use for their planning run
                let cfg = if let Ok(f) = std::env::var("VH_FAULTCFG") {
                    core::exec::Config { audit: f.contains('a'), read_all: f.contains('r'), c06: f.contains('c'), compare_values: true }
                } else {
                    core::exec::Config::default()
                };
                let r = core::run_history(&core::profile(&profile), hseed, &cfg, true);
                for (i, a) in r.actions.iter().enumerate() {
                    println!("{i:3} {a}");
                }
                for v in &r.violations {
                    println!("VIOLATION {} at action {}: {}", v.prop, v.action_index, v.msg);
                }
                if r.violations.is_empty() { 0 } else { 1 }
            } else {
                let j = core::run_shard(&profile, &prop, seed, shard, start, count, progress.as_deref());
                println!("{}", j.to_string());
                0
            }
        }
        "lifecycle" => {
            quiet_panics();
            let len: usize = args[2].parse().unwrap();
            let shard: u64 = args[3].parse().unwrap();
            let nshards: u64 = args[4].parse().unwrap();
            println!("{}", wl::lifecycle::run(len, shard, nshards).to_string());
            0
        }
        "lifecycle-one" => {
            let codes: Vec<usize> = args[2].split(',').map(|c| c.parse().unwrap()).collect();
            let invalid = args.get(3).map(|s| s.as_str()) == Some("invalid-node");
            match wl::lifecycle::run_sequence_on(&codes, invalid) {
                wl::lifecycle::Outcome::Violation(m) => {
                    println!("VIOLATION C10 {:?}: {m}", codes.iter().map(|c| wl::lifecycle::act(*c)).collect::<Vec<_>>());
                    1
                }
                _ => 0,
            }
        }
        "limits-heights" => {
            quiet_panics();
            let lo: usize = args[2].parse().unwrap();
            let hi: usize = args[3].parse().unwrap();
            let j = wl::limits::run_heights(lo, hi);
            let bad = j.to_string().contains("\"property\"");
            println!("{}", j.to_string());
            if bad && args.get(4).map(|s| s.as_str()) == Some("--replay") { 1 } else { 0 }
        }
        "limits-misuse" => {
            quiet_panics();
            let name = args[2].as_str();
            let r = wl::limits::misuse_case(name);
            let (status, detail) = match &r { Ok(m) => ("pass", m.clone()), Err(m) => ("fail", m.clone()) };
            println!("{}", J::obj(vec![("case", J::s(name)), ("status", J::s(status)), ("detail", J::s(detail))]).to_string());
            0
        }
        "list-misuse" => {
            for m in wl::limits::MISUSE { println!("{m}"); }
            0
        }
        "expert" => {
            quiet_panics();
            let seed: u64 = args[2].parse().unwrap();
            let shard: u64 = args[3].parse().unwrap();
            let count: u64 = args[4].parse().unwrap();
            println!("{}", wl::expert::run(seed, shard, count).to_string());
            0
        }
        "expert-faults" => {
            quiet_panics();
            let get = |name: &str| args.iter().position(|a| a == name).and_then(|i| args.get(i + 1)).cloned();
            let seed: u64 = get("--seed").and_then(|s| s.parse().ok()).unwrap_or(1);
            let shard: u64 = get("--shard").and_then(|s| s.parse().ok()).unwrap_or(0);
            let count: u64 = get("--count").and_then(|s| s.parse().ok()).unwrap_or(100);
            let progress = get("--progress");
            println!("{}", wl::expert::run_faults(seed, shard, count, progress.as_deref()).to_string());
            0
        }
        "expert-fault-one" => {
            if std::env::var("VH_LOUD").is_err() { quiet_panics(); }
            match wl::expert::fault_one(args[2].parse().unwrap(), args[3].parse().unwrap(), args[4].parse().unwrap()) {
                Some(m) => { println!("VIOLATION C13 {m}"); 1 }
                None => 0,
            }
        }
        "expert-one" => {
            if std::env::var("VH_LOUD").is_err() { quiet_panics(); }
            let o = wl::expert::run_history(args[2].parse().unwrap());
            for a in &o.actions { println!("{a}"); }
            if let Some(m) = o.violation { println!("VIOLATION C14 {m}"); 1 } else { 0 }
        }
        "maps" => {
            quiet_panics();
            let which = args[2].as_str();
            let seed: u64 = args[3].parse().unwrap();
            let shard: u64 = args[4].parse().unwrap();
            let count: u64 = args[5].parse().unwrap();
            println!("{}", wl::maps::run(which, seed, shard, count).to_string());
            0
        }
        "maps-faults" => {
            quiet_panics();
            let get = |name: &str| args.iter().position(|a| a == name).and_then(|i| args.get(i + 1)).cloned();
            let which = get("--profile").unwrap_or_else(|| "diff".into());
            let seed: u64 = get("--seed").and_then(|s| s.parse().ok()).unwrap_or(1);
            let shard: u64 = get("--shard").and_then(|s| s.parse().ok()).unwrap_or(0);
            let count: u64 = get("--count").and_then(|s| s.parse().ok()).unwrap_or(100);
            let start: u64 = get("--start").and_then(|s| s.parse().ok()).unwrap_or(0);
            let cap: u64 = get("--cap").and_then(|s| s.parse().ok()).unwrap_or(40);
            let progress = get("--progress");
            println!("{}", wl::maps::run_faults(&which, seed, shard, start, count, cap, progress.as_deref()).to_string());
            0
        }
        "maps-fault-one" => {
            if std::env::var("VH_LOUD").is_err() { quiet_panics(); }
            let o = wl::maps::run_history_fault(args[3].parse().unwrap(), &args[2], Some((args[4].parse().unwrap(), args[5].parse().unwrap())));
            for a in &o.actions { println!("{a}"); }
            for (p, m) in &o.violations { println!("VIOLATION {p} {m}"); }
            if o.violations.is_empty() { 0 } else { 1 }
        }
        "maps-one" => {
            if std::env::var("VH_LOUD").is_err() { quiet_panics(); }
            let o = wl::maps::run_history(args[3].parse().unwrap(), &args[2]);
            for a in &o.actions { println!("{a}"); }
            for (p, m) in &o.violations { println!("VIOLATION {p} {m}"); }
            if o.violations.is_empty() { 0 } else { 1 }
        }
        "symdiff" => {
            quiet_panics();
            let j = match args[2].as_str() {
                "fold" => wl::symdiff::run_symfold(),
                "fold-float" => wl::symdiff::run_symfold_float(),
                "merge-btree" => wl::symdiff::run_merge::<wl::maps::B>(args[3].parse().unwrap(), args[4].parse().unwrap()),
                "merge-ordmap" => wl::symdiff::run_merge::<im_rc::OrdMap<i64, i64>>(args[3].parse().unwrap(), args[4].parse().unwrap()),
                _ => wl::symdiff::run_random(args[3].parse().unwrap(), args[4].parse().unwrap()),
            };
            println!("{}", j.to_string());
            0
        }
        "leaks" => {
            quiet_panics();
            let j = wl::leaks::run(&args[2]);
            let bad = j.to_string().contains("\"property\"");
            println!("{}", j.to_string());
            if bad && args.get(3).map(|s| s.as_str()) == Some("--replay") { 1 } else { 0 }
        }
        "list-leak-shapes" => {
            for s_ in wl::leaks::SHAPES { println!("{s_}"); }
            0
        }
        "memo" => {
            quiet_panics();
            let seed: u64 = args[2].parse().unwrap();
            let shard: u64 = args[3].parse().unwrap();
            let count: u64 = args[4].parse().unwrap();
            println!("{}", wl::memo::run(seed, shard, count).to_string());
            0
        }
        "expert2" => {
            quiet_panics();
            let seed: u64 = args[2].parse().unwrap();
            let shard: u64 = args[3].parse().unwrap();
            let count: u64 = args[4].parse().unwrap();
            println!("{}", wl::expert2::run(seed, shard, count).to_string());
            0
        }
        "expert2-one" => {
            quiet_panics();
            let o = wl::expert2::run_history(args[2].parse().unwrap());
            for a in &o.actions { println!("{a}"); }
            if let Some(m) = o.violation { println!("VIOLATION C14 {m}"); 1 } else { 0 }
        }
        "scoped" => {
            quiet_panics();
            let seed: u64 = args[2].parse().unwrap();
            let shard: u64 = args[3].parse().unwrap();
            let count: u64 = args[4].parse().unwrap();
            println!("{}", wl::scoped::run(seed, shard, count).to_string());
            0
        }
        "nested" => {
            quiet_panics();
            let seed: u64 = args[2].parse().unwrap();
            let shard: u64 = args[3].parse().unwrap();
            let count: u64 = args[4].parse().unwrap();
            println!("{}", wl::nested::run(seed, shard, count).to_string());
            0
        }
        "nested-one" => {
            if std::env::var("VH_LOUD").is_err() { quiet_panics(); }
            let o = wl::nested::run_history(args[2].parse().unwrap());
            for a in &o.actions { println!("{a}"); }
            if let Some((p, m)) = o.violation { println!("VIOLATION {p} {m}"); 1 } else { 0 }
        }
        "scoped-one" => {
            quiet_panics();
            let o = wl::scoped::run_history(args[2].parse().unwrap());
            for a in &o.actions { println!("{a}"); }
            if let Some((p, m)) = o.violation { println!("VIOLATION {p} {m}"); 1 } else { 0 }
        }
        "memo-one" => {
            quiet_panics();
            let hs: u64 = args[2].parse().unwrap();
            let o = match args.get(3).map(|s| s.as_str()) {
                Some("inner") => wl::memo::run_history_inner(hs),
                Some("rec") => wl::memo::run_history_rec(hs),
                _ => wl::memo::run_history(hs),
            };
            for a in &o.actions { println!("{a}"); }
            if let Some(m) = o.violation { println!("VIOLATION C20 {m}"); 1 } else { 0 }
        }
        "faults" => {
            quiet_panics();
            let get = |name: &str| args.iter().position(|a| a == name).and_then(|i| args.get(i + 1)).cloned();
            let profile = get("--profile").unwrap_or("core".into());
            let seed: u64 = get("--seed").and_then(|s| s.parse().ok()).unwrap_or(1);
            let shard: u64 = get("--shard").and_then(|s| s.parse().ok()).unwrap_or(0);
            let count: u64 = get("--count").and_then(|s| s.parse().ok()).unwrap_or(100);
            let start: u64 = get("--start").and_then(|s| s.parse().ok()).unwrap_or(0);
            let cap: u64 = get("--cap").and_then(|s| s.parse().ok()).unwrap_or(40);
            let progress = get("--progress");
            println!("{}", core::run_fault_shard(&profile, seed, shard, start, count, cap, progress.as_deref()).to_string());
            0
        }
        "fault-one" => {
            if std::env::var("VH_LOUD").is_err() { quiet_panics(); }
            let r = core::fault_run(&core::profile(&args[2]), args[3].parse().unwrap(), args[4].parse().unwrap(), args[5].parse().unwrap(), 1);
            for v in &r.violations { println!("VIOLATION {} {}", v.prop, v.msg); }
            if r.violations.is_empty() { 0 } else { 1 }
        }
        "list-directed" => {
            for sc in directed::all() {
                println!("{} {}", sc.name, sc.props.join(","));
            }
            0
        }
        _ => {
            eprintln!("usage: vharness <directed|list-directed|...>");
            2
        }
    };
    std::process::exit(code);
}
