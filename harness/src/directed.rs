//! Directed scenarios: one fixed input per defect that was confirmed against the real code
//! (DESIGN.md section 8), kept as permanent regression inputs. Each returns Ok(()) when the
//! property holds on that input and Err(signature) otherwise. A panic is caught by the runner.

use incremental::expert::{Dependency, Node as ExpertNode};
use incremental::{Incr, IncrState, ObserverError, Update, Var};
use incremental_map::prelude::*;
use std::cell::{Cell, RefCell};
use std::collections::BTreeMap;
use std::rc::Rc;

pub struct Scenario {
    pub name: &'static str,
    /// properties this input is evidence for (first one is the primary)
    pub props: &'static [&'static str],
    pub run: fn() -> Result<(), String>,
}

macro_rules! check {
    ($cond:expr, $($fmt:tt)+) => {
        if !($cond) {
            return Err(format!($($fmt)+));
        }
    };
}

pub fn all() -> Vec<Scenario> {
    vec![
        Scenario { name: "mapref_reobserved", props: &["C01", "C06"], run: mapref_reobserved },
        Scenario { name: "mapref_reobserved_same_round_write", props: &["C01"], run: mapref_reobserved_same_round_write },
        Scenario { name: "mapref_stacked_reobserved", props: &["C01", "C06"], run: mapref_stacked_reobserved },
        Scenario { name: "height_panic_while_partly_linked", props: &["C19", "C04"], run: height_panic_while_partly_linked },
        Scenario { name: "mapref_projection_runs_for_unneeded_node", props: &["C05"], run: mapref_projection_runs_for_unneeded_node },
        Scenario { name: "sibling_chain_bind", props: &["C02", "C03", "C04"], run: sibling_chain_bind },
        Scenario { name: "dead_rhs_node_height_adjust", props: &["C04"], run: dead_rhs_node_height_adjust },
        Scenario { name: "second_observer_spurious_changed", props: &["C09"], run: second_observer_spurious_changed },
        Scenario { name: "unsubscribe_handler_count", props: &["C11", "C09"], run: unsubscribe_handler_count },
        Scenario { name: "double_unsubscribe", props: &["C09", "C10", "C11"], run: double_unsubscribe },
        Scenario { name: "expert_dependency_on_invalidated_node", props: &["C14", "C04"], run: expert_dependency_on_invalidated_node },
        Scenario { name: "expert_remove_invalid_child", props: &["C14"], run: expert_remove_invalid_child },
        Scenario { name: "expert_add_dep_on_computed_child", props: &["C14"], run: expert_add_dep_on_computed_child },
        Scenario { name: "expert_remove_first_duplicate", props: &["C14"], run: expert_remove_first_duplicate },
        Scenario { name: "mapi_shared_result_node", props: &["C16"], run: mapi_shared_result_node },
        Scenario { name: "mapi_ignores_input", props: &["C16"], run: mapi_ignores_input },
        Scenario { name: "mapi_ignores_input_ordmap", props: &["C16"], run: mapi_ignores_input_ordmap },
        Scenario { name: "set_max_height_exact", props: &["C19"], run: set_max_height_exact },
        Scenario { name: "set_max_height_shrink", props: &["C19"], run: set_max_height_shrink },
        Scenario { name: "scoped_var_set_after_rebind", props: &["C04", "C08"], run: scoped_var_set_after_rebind },
        Scenario { name: "handler_unsubscribes_itself", props: &["C04", "C09"], run: handler_unsubscribes_itself },
        Scenario { name: "handler_subscribes_same_observer", props: &["C04", "C09"], run: handler_subscribes_same_observer },
        Scenario { name: "scope_node_outlives_bind", props: &["C04", "C03"], run: scope_node_outlives_bind },
        Scenario { name: "scope_node_kept_while_bind_input_grows", props: &["C03", "C02", "C11"], run: scope_node_kept_while_bind_input_grows },
        Scenario { name: "observe_scope_node_of_unobserved_bind", props: &["C04"], run: observe_scope_node_of_unobserved_bind },
        Scenario { name: "node_linked_while_its_input_is_lifted", props: &["C02", "C11", "C04"], run: node_linked_while_its_input_is_lifted },
        Scenario { name: "perkey_result_dropped_input_node_kept", props: &["C12", "C04", "C16"], run: perkey_result_dropped_input_node_kept },
        Scenario { name: "nested_scope_node_not_lifted_with_outer_bind", props: &["C03", "C02", "C11"], run: nested_scope_node_not_lifted_with_outer_bind },
        Scenario { name: "leaf_several_binds_down_jumps_the_queue", props: &["C03", "C02"], run: leaf_several_binds_down_jumps_the_queue },
        Scenario { name: "nested_scope_node_jumps_the_queue", props: &["C03", "C02"], run: nested_scope_node_jumps_the_queue },
        Scenario { name: "mapref_projection_of_superseded_bind_run", props: &["C03"], run: mapref_projection_of_superseded_bind_run },
        Scenario { name: "expert_edge_callback_of_superseded_bind_run", props: &["C03"], run: expert_edge_callback_of_superseded_bind_run },
        Scenario { name: "nested_scope_node_orphaned_by_dropped_inner_bind", props: &["C03"], run: nested_scope_node_orphaned_by_dropped_inner_bind },
        Scenario { name: "shrink_limit_after_tall_graph_released", props: &["C19"], run: shrink_limit_after_tall_graph_released },
        Scenario { name: "nested_var_write_inside_deferred_modify", props: &["C04", "C08"], run: nested_var_write_inside_deferred_modify },
        Scenario { name: "on_update_added_from_on_update_handler", props: &["C04"], run: on_update_added_from_on_update_handler },
        Scenario { name: "unsubscribe_from_drop_of_handler_capture", props: &["C04", "C10", "C12"], run: unsubscribe_from_drop_of_handler_capture },
        Scenario { name: "guard_cancels_sibling_subscription_on_drop", props: &["C04", "C10", "C09"], run: guard_cancels_sibling_subscription_on_drop },
        Scenario { name: "unsubscribe_guard_outlives_state", props: &["C12", "C04", "C10"], run: unsubscribe_guard_outlives_state },
        Scenario { name: "write_from_drop_of_dead_variable_value", props: &["C08", "C04"], run: write_from_drop_of_dead_variable_value },
        Scenario { name: "observe_from_observability_callback", props: &["C04", "C14"], run: observe_from_observability_callback },
        Scenario { name: "state_unsubscribe_before_first_stabilise", props: &["C09", "C10"], run: state_unsubscribe_before_first_stabilise },
    ]
}

fn mapref_reobserved() -> Result<(), String> {
    let st = IncrState::new();
    let v = st.var((1i64, 10i64));
    let _keep = v.observe();
    let mr = v.map_ref(|p| &p.1);
    let m = mr.map(|x| x + 1000);
    let o = m.observe();
    st.stabilise();
    check!(o.try_get_value() == Ok(1010), "round1 {:?}", o.try_get_value());
    v.set((2, 10));
    st.stabilise();
    check!(o.try_get_value() == Ok(1010), "round2 {:?}", o.try_get_value());
    drop(o);
    st.stabilise();
    v.set((2, 20));
    st.stabilise();
    let o2 = m.observe();
    let omr = mr.observe();
    st.stabilise();
    check!(omr.try_get_value() == Ok(20), "map_ref itself {:?}", omr.try_get_value());
    check!(
        o2.try_get_value() == Ok(1020),
        "dependant of re-observed map_ref returned {:?}, expected Ok(1020)",
        o2.try_get_value()
    );
    Ok(())
}

fn sibling_chain_bind() -> Result<(), String> {
    let st = IncrState::new();
    let a = st.var(1i64);
    let s0 = a.map(|x| x + 1);
    let s1 = s0.map(|x| x + 1);
    let s2 = s1.map(|x| x + 1);
    let o_s2 = s2.observe();
    st.stabilise();
    let l = a.map(|x| x * 10);
    let stale_runs = Rc::new(Cell::new(0u32));
    let round = Rc::new(Cell::new(0i64));
    let b = l.bind({
        let s2 = s2.clone();
        let stale_runs = stale_runs.clone();
        let a_now = a.clone();
        move |lv| {
            let captured = *lv;
            let stale_runs = stale_runs.clone();
            let a_now = a_now.clone();
            s2.map(move |s| {
                // the closure belongs to the generation created for lhs == captured
                if a_now.get() * 10 != captured {
                    stale_runs.set(stale_runs.get() + 1);
                }
                s + captured
            })
        }
    });
    let d_runs = Rc::new(RefCell::new(Vec::<(i64, i64)>::new()));
    let d = b.map({
        let d_runs = d_runs.clone();
        let round = round.clone();
        move |x| {
            d_runs.borrow_mut().push((round.get(), *x));
            *x
        }
    });
    let od = d.observe();
    round.set(1);
    st.stabilise();
    check!(od.try_get_value() == Ok(14), "round1 {:?}", od.try_get_value());
    a.set(2);
    round.set(2);
    st.stabilise();
    check!(od.try_get_value() == Ok(25), "round2 {:?}", od.try_get_value());
    check!(o_s2.try_get_value() == Ok(5), "s2 {:?}", o_s2.try_get_value());
    check!(
        stale_runs.get() == 0,
        "closure of the superseded bind generation ran {} time(s) after the bind input changed",
        stale_runs.get()
    );
    let r2: Vec<_> = d_runs.borrow().iter().filter(|(r, _)| *r == 2).cloned().collect();
    check!(r2.len() == 1, "dependant of the bind ran {} times in one stabilise: {:?}", r2.len(), r2);
    Ok(())
}

fn dead_rhs_node_height_adjust() -> Result<(), String> {
    let st = IncrState::new();
    let sel = st.var(0i64);
    let base = st.var(5i64);
    let shallow = base.watch();
    let mut deep = base.map(|x| x + 1);
    for _ in 0..6 {
        deep = deep.map(|x| x + 1);
    }
    let inner = sel.bind(move |s| if *s == 0 { shallow.clone() } else { deep.clone() });
    let other = st.var(100i64);
    let outer = inner.bind(move |x| {
        let x = *x;
        let tmp = other.map(|y| y + 1);
        drop(tmp);
        other.map(move |y| y + x)
    });
    let o = outer.observe();
    st.stabilise();
    check!(o.try_get_value() == Ok(105), "round1 {:?}", o.try_get_value());
    sel.set(1);
    st.stabilise();
    check!(o.try_get_value() == Ok(112), "round2 {:?}", o.try_get_value());
    Ok(())
}

fn second_observer_spurious_changed() -> Result<(), String> {
    let st = IncrState::new();
    let v = st.var(1i64);
    let m = v.map(|x| *x);
    let o1 = m.observe();
    let log = Rc::new(RefCell::new(Vec::<Update<i64>>::new()));
    let _t = o1.subscribe({
        let log = log.clone();
        move |u| log.borrow_mut().push(u.cloned())
    });
    st.stabilise();
    check!(*log.borrow() == vec![Update::Initialised(1)], "first round: {:?}", log.borrow());
    let _o2 = m.observe();
    st.stabilise();
    check!(
        *log.borrow() == vec![Update::Initialised(1)],
        "existing subscriber was notified although the value did not change: {:?}",
        log.borrow()
    );
    let log2 = Rc::new(RefCell::new(Vec::<Update<i64>>::new()));
    let _t2 = o1.subscribe({
        let log2 = log2.clone();
        move |u| log2.borrow_mut().push(u.cloned())
    });
    st.stabilise();
    check!(*log.borrow() == vec![Update::Initialised(1)], "after extra subscription: {:?}", log.borrow());
    check!(*log2.borrow() == vec![Update::Initialised(1)], "new subscription: {:?}", log2.borrow());
    v.set(2);
    st.stabilise();
    check!(*log.borrow() == vec![Update::Initialised(1), Update::Changed(2)], "after change: {:?}", log.borrow());
    check!(*log2.borrow() == vec![Update::Initialised(1), Update::Changed(2)], "after change (2): {:?}", log2.borrow());
    Ok(())
}

fn unsubscribe_handler_count() -> Result<(), String> {
    let st = IncrState::new();
    let v = st.var(1i64);
    let o = v.observe();
    st.stabilise();
    let calls = Rc::new(Cell::new(0));
    let t = o.subscribe({
        let calls = calls.clone();
        move |_| calls.set(calls.get() + 1)
    });
    st.stabilise();
    check!(calls.get() == 1, "calls {}", calls.get());
    o.unsubscribe(t).map_err(|e| format!("unsubscribe failed {e:?}"))?;
    #[cfg(cormacrelf_incremental_rs_verif)]
    {
        let audit = st.verif_audit();
        check!(audit.is_empty(), "audit after unsubscribe: {}", audit.join("; "));
    }
    v.set(2);
    st.stabilise();
    check!(calls.get() == 1, "handler ran after unsubscribe ({} calls)", calls.get());
    Ok(())
}

fn expert_remove_invalid_child() -> Result<(), String> {
    let st = IncrState::new();
    let c = st.var(1i64);
    let k = st.var(100i64);
    let holder: Rc<RefCell<Option<Incr<i64>>>> = Rc::new(RefCell::new(None));
    let b = c.bind({
        let holder = holder.clone();
        let k = k.clone();
        move |cv| {
            let cv = *cv;
            let n = k.map(move |x| x + cv);
            *holder.borrow_mut() = Some(n.clone());
            n
        }
    });
    let prev: Rc<RefCell<Option<Dependency<i64>>>> = Rc::new(RefCell::new(None));
    let e = ExpertNode::<i64>::new(&st.weak(), {
        let prev = prev.clone();
        move || prev.borrow().as_ref().unwrap().value_cloned()
    });
    let e_w = e.weak();
    let m = b.map({
        let prev = prev.clone();
        let holder = holder.clone();
        move |_| {
            let n = holder.borrow().clone().unwrap();
            let dep = e_w.add_dependency(&n);
            let old = prev.borrow_mut().take();
            if let Some(p) = old {
                e_w.remove_dependency(p);
            }
            prev.replace(Some(dep));
        }
    });
    e.add_dependency(&m);
    let o = e.watch().observe();
    st.stabilise();
    check!(o.try_get_value() == Ok(101), "round1 {:?}", o.try_get_value());
    c.set(2);
    st.stabilise();
    check!(
        o.try_get_value() == Ok(102),
        "after swapping an invalidated dependency for a fresh one the expert node returned {:?}",
        o.try_get_value()
    );
    c.set(3);
    st.stabilise();
    check!(o.try_get_value() == Ok(103), "round3 {:?}", o.try_get_value());
    Ok(())
}

fn expert_add_dep_on_computed_child() -> Result<(), String> {
    let st = IncrState::new();
    let x = st.var(7i64);
    let _ox = x.observe();
    let ctl = st.var(0i64);
    let seen: Rc<RefCell<Vec<i64>>> = Rc::new(RefCell::new(vec![]));
    let sum = Rc::new(Cell::new(0i64));
    let e = ExpertNode::<i64>::new(&st.weak(), {
        let sum = sum.clone();
        move || sum.get()
    });
    let e_w = e.weak();
    let m = ctl.map({
        let x = x.clone();
        let seen = seen.clone();
        let sum = sum.clone();
        let added = Cell::new(false);
        move |c| {
            if *c == 1 && !added.get() {
                added.set(true);
                let seen = seen.clone();
                let sum = sum.clone();
                e_w.add_dependency_with(&x, move |v| {
                    seen.borrow_mut().push(*v);
                    sum.set(*v);
                });
            }
        }
    });
    e.add_dependency(&m);
    let o = e.watch().observe();
    st.stabilise();
    check!(o.try_get_value() == Ok(0), "round1 {:?}", o.try_get_value());
    ctl.set(1);
    st.stabilise();
    check!(
        *seen.borrow() == vec![7],
        "change callback of a dependency added on an already computed child saw {:?}, expected [7]",
        seen.borrow()
    );
    check!(o.try_get_value() == Ok(7), "round2 {:?}", o.try_get_value());
    x.set(9);
    st.stabilise();
    check!(o.try_get_value() == Ok(9), "round3 {:?}", o.try_get_value());
    Ok(())
}

fn expert_remove_first_duplicate() -> Result<(), String> {
    let st = IncrState::new();
    let x = st.var(3i64);
    let ctl = st.var(0i64);
    let deps: Rc<RefCell<Vec<Dependency<i64>>>> = Rc::new(RefCell::new(vec![]));
    let e = ExpertNode::<i64>::new(&st.weak(), {
        let deps = deps.clone();
        move || deps.borrow().iter().map(|d| d.value_cloned()).sum::<i64>()
    });
    let e_w = e.weak();
    let m = ctl.map({
        let deps = deps.clone();
        let x = x.clone();
        move |c| match *c {
            0 => {
                let d1 = e_w.add_dependency(&x);
                let d2 = e_w.add_dependency(&x);
                deps.borrow_mut().extend([d1, d2]);
            }
            1 => {
                let d1 = deps.borrow_mut().remove(0);
                e_w.remove_dependency(d1);
            }
            _ => {}
        }
    });
    e.add_dependency(&m);
    let o = e.watch().observe();
    st.stabilise();
    check!(o.try_get_value() == Ok(6), "round1 {:?}", o.try_get_value());
    ctl.set(1);
    st.stabilise();
    check!(o.try_get_value() == Ok(3), "round2 {:?}", o.try_get_value());
    x.set(4);
    st.stabilise();
    check!(o.try_get_value() == Ok(4), "round3 {:?}", o.try_get_value());
    #[cfg(cormacrelf_incremental_rs_verif)]
    {
        let audit = st.verif_audit();
        check!(audit.is_empty(), "audit: {}", audit.join("; "));
    }
    Ok(())
}

fn mapi_shared_result_node() -> Result<(), String> {
    let st = IncrState::new();
    let shared = st.var(7i64);
    let m = st.var(BTreeMap::from([(1i64, 10i64)]));
    let out = m.incr_mapi_({
        let shared = shared.clone();
        move |_k, _v| shared.watch()
    });
    let o = out.observe();
    st.stabilise();
    check!(o.try_get_value() == Ok(BTreeMap::from([(1, 7)])), "round1 {:?}", o.try_get_value());
    m.modify(|m| {
        m.insert(2, 20);
    });
    st.stabilise();
    check!(
        o.try_get_value() == Ok(BTreeMap::from([(1, 7), (2, 7)])),
        "key added later with a shared result node: {:?}",
        o.try_get_value()
    );
    shared.set(8);
    st.stabilise();
    check!(o.try_get_value() == Ok(BTreeMap::from([(1, 8), (2, 8)])), "round3 {:?}", o.try_get_value());
    m.modify(|m| {
        m.remove(&1);
    });
    st.stabilise();
    check!(o.try_get_value() == Ok(BTreeMap::from([(2, 8)])), "round4 {:?}", o.try_get_value());
    Ok(())
}

fn mapi_ignores_input() -> Result<(), String> {
    let st = IncrState::new();
    let k = st.constant(5i64);
    let m = st.var(BTreeMap::from([(1i64, 10i64), (2, 20)]));
    let out = m.incr_mapi_(move |_k, _v| k.clone());
    let o = out.observe();
    st.stabilise();
    check!(o.try_get_value() == Ok(BTreeMap::from([(1, 5), (2, 5)])), "round1 {:?}", o.try_get_value());
    m.modify(|m| {
        m.insert(1, 11);
    });
    st.stabilise();
    check!(o.try_get_value() == Ok(BTreeMap::from([(1, 5), (2, 5)])), "round2 {:?}", o.try_get_value());
    m.modify(|m| {
        m.remove(&2);
    });
    st.stabilise();
    check!(o.try_get_value() == Ok(BTreeMap::from([(1, 5)])), "round3 {:?}", o.try_get_value());
    Ok(())
}

fn mapi_ignores_input_ordmap() -> Result<(), String> {
    use im_rc::ordmap;
    let st = IncrState::new();
    let k = st.constant(5i64);
    let m = st.var(ordmap! {1i64 => 10i64, 2 => 20});
    let out = m.incr_mapi_(move |_k, _v| k.clone());
    let o = out.observe();
    st.stabilise();
    check!(o.try_get_value() == Ok(ordmap! {1 => 5, 2 => 5}), "round1 {:?}", o.try_get_value());
    m.modify(|m| {
        m.insert(1, 11);
    });
    st.stabilise();
    check!(o.try_get_value() == Ok(ordmap! {1 => 5, 2 => 5}), "round2 {:?}", o.try_get_value());
    m.modify(|m| {
        m.remove(&2);
    });
    st.stabilise();
    check!(o.try_get_value() == Ok(ordmap! {1 => 5}), "round3 {:?}", o.try_get_value());
    Ok(())
}

fn chain(v: &Var<i64>, len: usize) -> Incr<i64> {
    let mut n = v.watch();
    for _ in 0..len {
        n = n.map(|x| x + 1);
    }
    n
}

fn set_max_height_exact() -> Result<(), String> {
    // a var sits at height 1, so a chain of n maps needs height n + 1
    let probe = IncrState::new_with_height(64);
    let pv = probe.var(0i64);
    let po = chain(&pv, 4).observe();
    probe.stabilise();
    let mut needed = 5;
    #[cfg(cormacrelf_incremental_rs_verif)]
    {
        needed = probe.verif_max_height_in_use();
    }
    drop(po);
    let st = IncrState::new();
    st.set_max_height_allowed(needed as usize);
    let v = st.var(0i64);
    let o = chain(&v, 4).observe();
    st.stabilise();
    check!(o.try_get_value() == Ok(4), "value {:?}", o.try_get_value());
    needed += 0;
    let _ = needed;
    Ok(())
}

fn set_max_height_shrink() -> Result<(), String> {
    let st = IncrState::new_with_height(40);
    let v = st.var(0i64);
    let o = chain(&v, 4).observe();
    st.stabilise();
    st.set_max_height_allowed(10);
    v.set(1);
    st.stabilise();
    check!(o.try_get_value() == Ok(5), "value {:?}", o.try_get_value());
    let o2 = chain(&v, 9).observe();
    st.stabilise();
    check!(o2.try_get_value() == Ok(10), "value {:?}", o2.try_get_value());
    Ok(())
}

fn scoped_var_set_after_rebind() -> Result<(), String> {
    let st = IncrState::new();
    let c = st.var(1i64);
    let made: Rc<RefCell<Vec<Var<i64>>>> = Rc::new(RefCell::new(vec![]));
    let stw = st.weak();
    let b = c.bind({
        let made = made.clone();
        move |cv| {
            let v = stw.var_current_scope(*cv * 10);
            made.borrow_mut().push(v.clone());
            v.watch()
        }
    });
    let o = b.observe();
    st.stabilise();
    check!(o.try_get_value() == Ok(10), "round1 {:?}", o.try_get_value());
    let old = made.borrow()[0].clone();
    let o_old = old.watch().observe();
    st.stabilise();
    check!(o_old.try_get_value() == Ok(10), "adopted {:?}", o_old.try_get_value());
    c.set(2);
    st.stabilise();
    check!(o.try_get_value() == Ok(20), "round2 {:?}", o.try_get_value());
    check!(
        o_old.try_get_value() == Err(ObserverError::ObservingInvalid),
        "old scoped var {:?}",
        o_old.try_get_value()
    );
    old.set(55);
    st.stabilise();
    check!(o.try_get_value() == Ok(20), "round3 {:?}", o.try_get_value());
    check!(o_old.try_get_value() == Err(ObserverError::ObservingInvalid), "old scoped var after set {:?}", o_old.try_get_value());
    Ok(())
}

fn handler_unsubscribes_itself() -> Result<(), String> {
    let st = IncrState::new();
    let v = st.var(1i64);
    let o = Rc::new(v.observe());
    let calls = Rc::new(Cell::new(0));
    let token = Rc::new(Cell::new(None));
    let weak_o = Rc::downgrade(&o);
    let t = o.subscribe({
        let calls = calls.clone();
        let token = token.clone();
        move |_| {
            calls.set(calls.get() + 1);
            if let (Some(o), Some(t)) = (weak_o.upgrade(), token.get()) {
                let _ = o.unsubscribe(t);
            }
        }
    });
    token.set(Some(t));
    st.stabilise();
    v.set(2);
    st.stabilise();
    check!(calls.get() == 1, "one-shot handler ran {} times", calls.get());
    Ok(())
}

fn handler_subscribes_same_observer() -> Result<(), String> {
    let st = IncrState::new();
    let v = st.var(1i64);
    let o = Rc::new(v.observe());
    let inner_calls = Rc::new(Cell::new(0));
    let weak_o = Rc::downgrade(&o);
    let done = Cell::new(false);
    let _t = o.subscribe({
        let inner_calls = inner_calls.clone();
        move |_| {
            if !done.replace(true) {
                if let Some(o) = weak_o.upgrade() {
                    let inner_calls = inner_calls.clone();
                    let _ = o.try_subscribe(move |_| inner_calls.set(inner_calls.get() + 1));
                }
            }
        }
    });
    st.stabilise();
    check!(inner_calls.get() == 0, "handler added from a handler ran in the same round");
    st.stabilise();
    check!(inner_calls.get() == 1, "handler added from a handler ran {} times by the next round", inner_calls.get());
    Ok(())
}

fn observe_scope_node_of_unobserved_bind() -> Result<(), String> {
    let st = IncrState::new();
    let c = st.var(1i64);
    let k = st.var(100i64);
    let holder: Rc<RefCell<Option<Incr<i64>>>> = Rc::new(RefCell::new(None));
    let b = c.bind({
        let holder = holder.clone();
        move |cv| {
            let cv = *cv;
            let n = k.map(move |x| x + cv);
            *holder.borrow_mut() = Some(n.clone());
            n
        }
    });
    let o = b.observe();
    st.stabilise();
    check!(o.try_get_value() == Ok(101), "round1 {:?}", o.try_get_value());
    drop(o);
    st.stabilise();
    let n = holder.borrow().clone().unwrap();
    let on = n.observe();
    st.stabilise();
    check!(on.try_get_value() == Ok(101), "adopted node {:?}", on.try_get_value());
    Ok(())
}

fn scope_node_outlives_bind() -> Result<(), String> {
    let st = IncrState::new();
    let c = st.var(1i64);
    let k = st.var(100i64);
    let made: Rc<RefCell<Vec<Incr<i64>>>> = Rc::new(RefCell::new(vec![]));
    let b = c.bind({
        let made = made.clone();
        let k = k.clone();
        move |cv| {
            let cv = *cv;
            let n = k.map(move |x| x + cv);
            made.borrow_mut().push(n.clone());
            n
        }
    });
    let o = b.observe();
    st.stabilise();
    c.set(2);
    st.stabilise();
    check!(o.try_get_value() == Ok(102), "round2 {:?}", o.try_get_value());
    let stale = made.borrow()[0].clone();
    let fresh = made.borrow()[1].clone();
    // the bind goes away completely; the nodes it created are still held by the program
    drop(o);
    drop(b);
    made.borrow_mut().clear();
    st.stabilise();
    let m1 = stale.map(|x| x + 1);
    let o1 = m1.observe();
    st.stabilise();
    check!(
        o1.try_get_value() == Err(ObserverError::ObservingInvalid),
        "dependant of a superseded scope node: {:?}",
        o1.try_get_value()
    );
    let m2 = fresh.map(|x| x + 1);
    let o2 = m2.observe();
    st.stabilise();
    check!(o2.try_get_value() == Ok(103), "dependant of the last generation's node: {:?}", o2.try_get_value());
    k.set(200);
    st.stabilise();
    check!(o2.try_get_value() == Ok(203), "after write: {:?}", o2.try_get_value());
    Ok(())
}

fn mapref_reobserved_same_round_write() -> Result<(), String> {
    let st = IncrState::new();
    let v = st.var((1i64, 10i64));
    let keep = v.observe();
    let mr = v.map_ref(|p| &p.1);
    let m = mr.map(|x| x + 1000);
    let o = m.observe();
    st.stabilise();
    drop(o);
    st.stabilise();
    // projection changes while the map_ref is unobserved, but its input stays observed
    v.set((1, 20));
    st.stabilise();
    // re-observed in a round in which the input changes again, with an equal projection
    let o2 = m.observe();
    v.set((2, 20));
    st.stabilise();
    check!(
        o2.try_get_value() == Ok(1020),
        "dependant of a map_ref re-observed in a round with an equal-projection write returned {:?}, expected Ok(1020)",
        o2.try_get_value()
    );
    drop(keep);
    Ok(())
}

fn mapref_stacked_reobserved() -> Result<(), String> {
    for second_write in [false, true] {
        let st = IncrState::new();
        let v = st.var(((1i64, 7i64), 0i64));
        let keep = v.observe();
        let inner = v.map_ref(|t| &t.0);
        let outer = inner.map_ref(|p| &p.0);
        let m = outer.map(|x| x * 100);
        let o = m.observe();
        st.stabilise();
        check!(o.try_get_value() == Ok(100), "round1 {:?}", o.try_get_value());
        drop(o);
        st.stabilise();
        // both projections change while the two map_refs are unobserved (the input stays observed)
        v.set(((2, 7), 0));
        st.stabilise();
        let o2 = m.observe();
        if second_write {
            // the input changes again in the round of re-observation, with equal projections
            v.set(((2, 7), 1));
        }
        st.stabilise();
        check!(
            o2.try_get_value() == Ok(200),
            "dependant of two stacked map_refs re-observed after the projection changed (second write in that round: {second_write}) returned {:?}, expected Ok(200)",
            o2.try_get_value()
        );
        drop(keep);
    }
    Ok(())
}

fn height_panic_while_partly_linked() -> Result<(), String> {
    use std::panic::{catch_unwind, AssertUnwindSafe};
    for too_tall_first in [true, false] {
        let st = IncrState::new_with_height(6);
        let v = st.var(0i64);
        let w = st.var(0i64);
        let mut tall = v.watch();
        for _ in 0..9 {
            tall = tall.map(|x| x + 1);
        }
        let short = w.map(|x| x + 1);
        // the height panic is raised while the two-input node has only one of its inputs linked
        let top = if too_tall_first { tall.map2(&short, |a, b| a + b) } else { short.map2(&tall, |a, b| a + b) };
        let o = top.observe();
        let r = catch_unwind(AssertUnwindSafe(|| st.stabilise()));
        let msg = match r {
            Ok(()) => return Err("a graph of height 11 was accepted under limit 6".into()),
            Err(e) => crate::panic_message(e),
        };
        check!(msg.to_lowercase().contains("height"), "the panic does not name the height limit: {msg}");
        let d = catch_unwind(AssertUnwindSafe(move || {
            drop(o);
            drop(top);
            drop(tall);
            drop(short);
            drop(v);
            drop(w);
            drop(st);
        }));
        if let Err(e) = d {
            return Err(format!(
                "dropping the handles after the height panic (too tall input first: {too_tall_first}) panicked again: {}",
                crate::panic_message(e)
            ));
        }
    }
    Ok(())
}

fn mapref_projection_runs_for_unneeded_node() -> Result<(), String> {
    let st = IncrState::new();
    let v = st.var((1i64, 2i64));
    let calls = Rc::new(Cell::new(0u32));
    let c2 = calls.clone();
    let mr = v.map_ref(move |p| {
        c2.set(c2.get() + 1);
        &p.0
    });
    let seen = Rc::new(RefCell::new(Vec::<String>::new()));
    let s2 = seen.clone();
    mr.on_update(move |u| {
        s2.borrow_mut().push(match u {
            incremental::NodeUpdate::Necessary(_) => "necessary".to_string(),
            incremental::NodeUpdate::Changed(_) => "changed".to_string(),
            incremental::NodeUpdate::Invalidated => "invalidated".to_string(),
            incremental::NodeUpdate::Unnecessary => "unnecessary".to_string(),
        })
    });
    let o = mr.observe();
    st.stabilise();
    check!(o.try_get_value() == Ok(1), "round1 {:?}", o.try_get_value());
    drop(o);
    calls.set(0);
    // no observer is alive for this call: no node function may run, the projection included
    st.stabilise();
    check!(
        calls.get() == 0,
        "the projection function of a map_ref node ran {} time(s) in a stabilise without any live observer (its on_update handler saw {:?})",
        calls.get(),
        seen.borrow()
    );
    Ok(())
}

fn double_unsubscribe() -> Result<(), String> {
    let st = IncrState::new();
    let v = st.var(1i64);
    let o = v.observe();
    let log = Rc::new(RefCell::new(Vec::<Update<i64>>::new()));
    let t1 = o.subscribe(|_| {});
    let _t2 = o.subscribe({
        let log = log.clone();
        move |u| log.borrow_mut().push(u.cloned())
    });
    st.stabilise();
    o.unsubscribe(t1).map_err(|e| format!("{e:?}"))?;
    o.unsubscribe(t1).map_err(|e| format!("second unsubscribe of the same token: {e:?}"))?;
    v.set(2);
    st.stabilise();
    check!(
        *log.borrow() == vec![Update::Initialised(1), Update::Changed(2)],
        "the other subscriber saw {:?} after a token was unsubscribed twice",
        log.borrow()
    );
    Ok(())
}

fn scope_node_kept_while_bind_input_grows() -> Result<(), String> {
    let st = IncrState::new();
    let sel = st.var(0i64);
    let base = st.var(1i64);
    let shallow = base.map(|x| *x);
    let mut deep = base.map(|x| x + 100);
    for _ in 0..6 {
        deep = deep.map(|x| x + 0);
    }
    // the bind's input: height grows when `sel` flips
    let input = sel.bind(move |s| if *s == 0 { shallow.clone() } else { deep.clone() });
    let o_input = input.observe();
    let k = st.var(10i64);
    let holder: Rc<RefCell<Option<Incr<i64>>>> = Rc::new(RefCell::new(None));
    let stale_runs = Rc::new(RefCell::new(Vec::<(i64, i64)>::new()));
    let b = input.bind({
        let (holder, k, stale_runs, base, sel) = (holder.clone(), k.clone(), stale_runs.clone(), base.clone(), sel.clone());
        move |x| {
            let captured = *x;
            let (stale_runs, base, sel) = (stale_runs.clone(), base.clone(), sel.clone());
            let n = k.map(move |y| {
                let current_input = if sel.get() == 0 { base.get() } else { base.get() + 100 };
                if current_input != captured {
                    stale_runs.borrow_mut().push((captured, *y));
                }
                y + captured
            });
            *holder.borrow_mut() = Some(n.clone());
            n
        }
    });
    let ob = b.observe();
    st.stabilise();
    check!(ob.try_get_value() == Ok(11), "round1 {:?}", ob.try_get_value());
    // keep the node built by the closure alive and observed on its own
    let n = holder.borrow().clone().unwrap();
    let on = n.observe();
    st.stabilise();
    // the bind goes unobserved; its input stays observed and becomes much taller
    drop(ob);
    st.stabilise();
    sel.set(1);
    st.stabilise();
    check!(o_input.try_get_value() == Ok(101), "input {:?}", o_input.try_get_value());
    // the bind comes back in a round in which the kept node's own input changes too
    let ob2 = b.observe();
    k.set(20);
    st.stabilise();
    check!(ob2.try_get_value() == Ok(121), "bind after re-observation {:?}", ob2.try_get_value());
    check!(
        stale_runs.borrow().is_empty(),
        "a closure built for a previous bind input ran after the input had changed: {:?}",
        stale_runs.borrow()
    );
    check!(
        on.try_get_value() == Err(ObserverError::ObservingInvalid),
        "node of the superseded run: {:?}",
        on.try_get_value()
    );
    #[cfg(cormacrelf_incremental_rs_verif)]
    {
        let audit = st.verif_audit();
        check!(audit.is_empty(), "audit: {}", audit.join("; "));
    }
    Ok(())
}

fn expert_dependency_on_invalidated_node() -> Result<(), String> {
    let st = IncrState::new();
    let x = st.var(3i64);
    let ctl = st.var(0i64);
    let e = ExpertNode::<i64>::new(&st.weak(), || 0);
    let e_w = e.weak();
    let m = ctl.map({
        let x = x.clone();
        let dep: RefCell<Option<Dependency<i64>>> = RefCell::new(None);
        move |c| match *c {
            1 => e_w.invalidate(),
            2 => {
                *dep.borrow_mut() = Some(e_w.add_dependency(&x));
            }
            3 => {
                if let Some(d) = dep.borrow_mut().take() {
                    e_w.remove_dependency(d);
                }
            }
            _ => {}
        }
    });
    e.add_dependency(&m);
    let o = e.watch().observe();
    let _om = m.observe();
    st.stabilise();
    for c in 1..=3 {
        ctl.set(c);
        st.stabilise();
        check!(o.try_get_value() == Err(ObserverError::ObservingInvalid), "step {c}: {:?}", o.try_get_value());
    }
    Ok(())
}


/// A node function writes one variable from inside the closure of a deferred `modify` / `update` /
/// `replace_with` of another variable (defect #20).
fn nested_var_write_inside_deferred_modify() -> Result<(), String> {
    for how in 0..3 {
        let st = IncrState::new();
        let trigger = st.var(0i64);
        let a = st.var(1i64);
        let b = st.var(2i64);
        let (a2, b2) = (a.clone(), b.clone());
        let w = trigger.map(move |t| {
            let b3 = b2.clone();
            match how {
                0 => a2.modify(move |x| {
                    b3.set(7);
                    *x += 1;
                }),
                1 => a2.update(move |x| {
                    b3.set(7);
                    x + 1
                }),
                _ => {
                    a2.replace_with(move |x| {
                        b3.set(7);
                        *x + 1
                    });
                }
            }
            *t
        });
        let (oa, ob, ow) = (a.observe(), b.observe(), w.observe());
        st.stabilise();
        check!(oa.try_get_value() == Ok(1) && ob.try_get_value() == Ok(2) && ow.try_get_value() == Ok(0), "how={how}: the writes were visible in the stabilise that made them: {:?} {:?}", oa.try_get_value(), ob.try_get_value());
        check!(a.get() == 2 && b.get() == 7, "how={how}: after the stabilise a={} b={}, expected 2 and 7", a.get(), b.get());
        check!(!st.is_stable(), "how={how}: is_stable() after deferred writes to observed variables");
        st.stabilise();
        check!(oa.try_get_value() == Ok(2) && ob.try_get_value() == Ok(7), "how={how}: next stabilise gives {:?} {:?}", oa.try_get_value(), ob.try_get_value());
    }
    Ok(())
}

/// `Incr::on_update` called from inside an `on_update` handler of the same node (defect #21).
fn on_update_added_from_on_update_handler() -> Result<(), String> {
    let st = IncrState::new();
    let v = st.var(1i64);
    let w = v.map(|x| x + 1);
    let log: Rc<RefCell<Vec<String>>> = Rc::new(RefCell::new(vec![]));
    let weak = w.weak();
    let (l1, added) = (log.clone(), Rc::new(Cell::new(false)));
    w.on_update(move |u| {
        l1.borrow_mut().push(format!("outer {:?}", u));
        if !added.replace(true) {
            let l2 = l1.clone();
            weak.upgrade().unwrap().on_update(move |u| l2.borrow_mut().push(format!("inner {:?}", u)));
        }
    });
    let o = w.observe();
    st.stabilise();
    check!(log.borrow().as_slice() == ["outer Necessary(2)"], "round 1: {:?}", log.borrow());
    v.set(5);
    st.stabilise();
    let got = log.borrow().clone();
    check!(got.len() == 3 && got[1..].contains(&"outer Changed(6)".to_string()) && got[1..].iter().any(|s| s.starts_with("inner ") && s.ends_with("(6)")), "round 2: {:?}", got);
    check!(o.try_get_value() == Ok(6), "value {:?}", o.try_get_value());
    Ok(())
}

/// A value captured by an update handler unsubscribes a token through the `WeakState` when it is
/// dropped (the guard pattern of tests/fixed_point.rs); the handler is dropped when its observer is
/// unlinked inside stabilise (defect #22).
fn unsubscribe_from_drop_of_handler_capture() -> Result<(), String> {
    struct Guard {
        state: incremental::WeakState,
        token: incremental::SubscriptionToken,
    }
    impl Drop for Guard {
        fn drop(&mut self) {
            self.state.unsubscribe(self.token);
        }
    }
    let st = IncrState::new();
    let v = st.var(1i64);
    let other = v.observe();
    let hits = Rc::new(Cell::new(0));
    let h = hits.clone();
    let tok_other = other.subscribe(move |_| h.set(h.get() + 1));
    let o = v.observe();
    let g = Guard { state: st.weak(), token: tok_other };
    o.subscribe(move |_| {
        let _ = &g;
    });
    st.stabilise();
    check!(hits.get() == 1, "round 1: {} deliveries", hits.get());
    drop(o);
    st.stabilise();
    // the guard has run: the other observer's subscription is cancelled, the observer itself is untouched
    v.set(2);
    st.stabilise();
    check!(hits.get() == 1, "the subscription cancelled by the guard still received updates: {}", hits.get());
    check!(other.try_get_value() == Ok(2), "other observer {:?}", other.try_get_value());
    Ok(())
}

/// `IncrState::unsubscribe(token)` on an observer that has not been through a stabilise yet
/// (defect #23): no callback may run after unsubscribe.
fn state_unsubscribe_before_first_stabilise() -> Result<(), String> {
    let st = IncrState::new();
    let v = st.var(1i64);
    let o = v.observe();
    let hits = Rc::new(Cell::new(0));
    let (h1, h2) = (hits.clone(), hits.clone());
    let tok = o.subscribe(move |_| h1.set(h1.get() + 1));
    let _tok2 = o.subscribe(move |_| h2.set(h2.get() + 100));
    st.unsubscribe(tok);
    st.stabilise();
    check!(hits.get() == 100, "deliveries after IncrState::unsubscribe on a new observer: {} (expected only the other subscription: 100)", hits.get());
    v.set(2);
    st.stabilise();
    check!(hits.get() == 200, "second round: {}", hits.get());
    check!(o.try_get_value() == Ok(2), "observer {:?}", o.try_get_value());
    Ok(())
}


/// A node becomes necessary; linking its *second* input (a bind that becomes necessary again) lifts
/// its *first* input, and through it the node itself; `became_necessary` then overwrote the node's
/// height with the one it had accumulated before the lift (defect #24, pointed out by a seeding
/// agent). Debug builds hit an assertion in the adjust-heights heap, release builds ran the node
/// twice in the next round.
fn node_linked_while_its_input_is_lifted() -> Result<(), String> {
    let st = IncrState::new();
    let log: Rc<RefCell<Vec<(i64, i64, i64)>>> = Rc::new(RefCell::new(vec![]));
    let k = st.var(0i64);
    let grow = st.var(false);
    let short0 = k.watch();
    let tall0 = k.map(|x| *x).map(|x| *x).map(|x| *x).map(|x| *x);
    let lh = grow.bind(move |&g| if g { tall0.clone() } else { short0.clone() });
    let _o_lh = lh.observe();
    let w = st.var(10i64);
    let slot: Rc<RefCell<Option<Incr<i64>>>> = Rc::new(RefCell::new(None));
    let (slot2, ww) = (slot.clone(), w.watch());
    let b = lh.bind(move |_| {
        let x = ww.map(|v| *v);
        slot2.borrow_mut().replace(x.clone());
        x
    });
    let o_b = b.observe();
    st.stabilise();
    let x = slot.borrow().clone().unwrap();
    let q = st.var(1i64);
    let c1 = x.map(|v| *v).map(|v| *v).map2(&q, |a, b| *a + *b);
    let o_c1 = c1.observe();
    st.stabilise();
    check!(o_c1.try_get_value() == Ok(11), "c1 {:?}", o_c1.try_get_value());
    drop(o_b);
    st.stabilise();
    grow.set(true);
    st.stabilise();
    let z = st.var(100i64);
    let l2 = log.clone();
    let p = c1.map3(&b, &z, move |c, m, z| {
        l2.borrow_mut().push((*c, *m, *z));
        *c + *m + *z
    });
    let o_p = p.observe();
    st.stabilise();
    check!(o_p.try_get_value() == Ok(121), "p {:?}", o_p.try_get_value());
    let a = st.verif_audit();
    check!(a.is_empty(), "audit after linking p: {}", a.join(" / "));
    log.borrow_mut().clear();
    z.set(200);
    q.set(2);
    st.stabilise();
    check!(log.borrow().as_slice() == [(12, 10, 200)], "p must run once, on final inputs; calls: {:?}", log.borrow());
    check!(o_p.try_get_value() == Ok(222), "p {:?}", o_p.try_get_value());
    let a = st.verif_audit();
    check!(a.is_empty(), "audit at the end: {}", a.join(" / "));
    Ok(())
}


/// The per-key function of `incr_mapi_` hands its per-key input node out and the user keeps
/// observing it after every handle of the operator's result is gone: the operator's internal
/// closure keeps running and unwrapped a dead weak reference to the result node (defect #25,
/// pointed out by a seeding agent).
fn perkey_result_dropped_input_node_kept() -> Result<(), String> {
    fn go<M>(name: &str, mk: fn(&BTreeMap<i64, i64>) -> M, run: fn(&Incr<M>, Rc<RefCell<Vec<(i64, Incr<i64>)>>>) -> Box<dyn std::any::Any>) -> Result<(), String>
    where
        M: incremental::Value,
    {
        let st = IncrState::new();
        let stash: Rc<RefCell<Vec<(i64, Incr<i64>)>>> = Rc::new(RefCell::new(vec![]));
        let mut m: BTreeMap<i64, i64> = BTreeMap::new();
        m.insert(1, 1);
        m.insert(3, 30);
        let mv = st.var(mk(&m));
        let out = run(&mv.watch(), stash.clone());
        st.stabilise();
        let per_key: Vec<(i64, Incr<i64>)> = stash.borrow().clone();
        check!(per_key.len() == 2, "{name}: {} per-key nodes", per_key.len());
        let obs: Vec<(i64, incremental::Observer<i64>)> = per_key.iter().map(|(k, n)| (*k, n.observe())).collect();
        st.stabilise();
        drop(out); // the observer and every handle of the result
        stash.borrow_mut().clear();
        drop(per_key);
        st.stabilise();
        m.insert(1, 5);
        mv.set(mk(&m));
        st.stabilise();
        check!(obs[0].1.try_get_value() == Ok(5), "{name}: value updates no longer reach the per-key node: {:?}", obs[0].1.try_get_value());
        m.insert(2, 7); // a new key
        mv.set(mk(&m));
        st.stabilise();
        m.remove(&3); // an old key goes
        m.insert(1, 6);
        mv.set(mk(&m));
        st.stabilise();
        check!(obs[0].1.try_get_value() == Ok(6), "{name}: after a removal {:?}", obs[0].1.try_get_value());
        check!(obs[1].1.try_get_value() == Err(ObserverError::ObservingInvalid), "{name}: per-key node of a removed key reads {:?}", obs[1].1.try_get_value());
        m.remove(&2); // the key that was added after the result had gone
        m.insert(3, 31);
        mv.set(mk(&m));
        st.stabilise();
        let a = st.verif_audit();
        check!(a.is_empty(), "{name}: audit: {}", a.join(" / "));
        drop(obs);
        st.stabilise();
        Ok(())
    }
    go::<BTreeMap<i64, i64>>("BTreeMap", |m| m.clone(), |i, stash| {
        let out = i.incr_mapi_(move |k, input| {
            stash.borrow_mut().push((*k, input.clone()));
            input.map(|x| x + 1)
        });
        Box::new((out.observe(), out))
    })?;
    go::<im_rc::OrdMap<i64, i64>>("OrdMap", |m| m.iter().map(|(k, v)| (*k, *v)).collect(), |i, stash| {
        let out = i.incr_filter_mapi_(move |k, input| {
            stash.borrow_mut().push((*k, input.clone()));
            input.map(|x| Some(x + 1))
        });
        Box::new((out.observe(), out))
    })
}


type Slot<T> = Rc<RefCell<Option<Incr<T>>>>;

/// builds `b1 = l.bind(|v1| { b2 = y.bind(|v2| r = x.map(|x| x + v1 + v2)); leak b2, r; constant })`
fn nested_leak(st: &IncrState, l: &Var<i64>, x: &Var<i64>, y: &Var<i64>, log: &Rc<RefCell<Vec<String>>>) -> (Incr<i64>, Slot<i64>, Slot<i64>) {
    let leaked_b2: Slot<i64> = Rc::new(RefCell::new(None));
    let leaked_r: Slot<i64> = Rc::new(RefCell::new(None));
    let (yw, xw) = (y.watch(), x.watch());
    let (lb2, lr, lg) = (leaked_b2.clone(), leaked_r.clone(), log.clone());
    let st2 = st.weak();
    let b1 = l.bind(move |&v1| {
        let (xw2, lr2, lg2) = (xw.clone(), lr.clone(), lg.clone());
        let b2 = yw.bind(move |&v2| {
            let lg3 = lg2.clone();
            let r = xw2.map(move |&x| {
                lg3.borrow_mut().push(format!("R(v1={v1}) ran with x={x}"));
                x + v1 + v2
            });
            lr2.borrow_mut().replace(r.clone());
            r
        });
        lb2.borrow_mut().replace(b2);
        st2.constant(0i64)
    });
    (b1, leaked_b2, leaked_r)
}

/// A node R of an inner bind B2 (built by the closure of an outer bind B1) stays observed on its own
/// while B2 is no longer necessary. When B1's input and R's input change in the same round, R was
/// recomputed directly (an unnecessary bind has no height, so the scope test of the direct-recompute
/// shortcut passed trivially) before B1's lhs-change node could invalidate it (defect #26, pointed
/// out by a seeding agent).
fn nested_scope_node_jumps_the_queue() -> Result<(), String> {
    let st = IncrState::new();
    let (l, x, y) = (st.var(100i64), st.var(1i64), st.var(7i64));
    let log: Rc<RefCell<Vec<String>>> = Rc::new(RefCell::new(vec![]));
    // an earlier dependant of l, so that B1's lhs-change node is not l's first one
    let lg = log.clone();
    let other = l.map(move |v| {
        lg.borrow_mut().push(format!("l changed to {v}"));
        *v
    });
    let _other_obs = other.observe();
    st.stabilise();
    let (b1, leaked_b2, leaked_r) = nested_leak(&st, &l, &x, &y, &log);
    let _b1_obs = b1.observe();
    st.stabilise();
    let b2 = leaked_b2.borrow().clone().unwrap();
    let b2_obs = b2.observe();
    st.stabilise();
    let r = leaked_r.borrow().clone().unwrap();
    let r_obs = r.observe();
    st.stabilise();
    check!(r_obs.try_get_value() == Ok(108), "R {:?}", r_obs.try_get_value());
    drop(b2_obs);
    st.stabilise();
    check!(r_obs.try_get_value() == Ok(108), "R after B2 went unobserved {:?}", r_obs.try_get_value());
    log.borrow_mut().clear();
    l.set(200);
    x.set(2);
    st.stabilise();
    let lg = log.borrow().clone();
    check!(!lg.iter().any(|s| s.starts_with("R(v1=100)")), "a node created by the previous run of the outer bind ran after the bind's input had changed (stale capture): {:?}", lg);
    check!(r_obs.try_get_value() == Err(ObserverError::ObservingInvalid), "R reads {:?}", r_obs.try_get_value());
    let a = st.verif_audit();
    check!(a.is_empty(), "audit: {}", a.join(" / "));
    Ok(())
}

/// KNOWN FINDING K3 (C03): `child_changed` evaluates the projection of a `map_ref` dependant as soon
/// as its input has a new value, i.e. before the bind whose previous run created that `map_ref` has
/// had a chance to re-run and invalidate it.
fn mapref_projection_of_superseded_bind_run() -> Result<(), String> {
    let st = IncrState::new();
    let x = st.var(1i64);
    let log: Rc<RefCell<Vec<(i64, i64)>>> = Rc::new(RefCell::new(vec![]));
    let (xw, lg) = (x.watch(), log.clone());
    let b = x.bind(move |&captured| {
        let lg2 = lg.clone();
        xw.map_ref(move |seen| {
            lg2.borrow_mut().push((captured, *seen));
            seen
        })
    });
    let o = b.observe();
    st.stabilise();
    log.borrow_mut().clear();
    x.set(2);
    st.stabilise();
    check!(o.try_get_value() == Ok(2), "value {:?}", o.try_get_value());
    for (c, s) in log.borrow().iter() {
        check!(c == s, "the map_ref projection built by the bind run for x={c} ran with x={s} (log {:?})", log.borrow());
    }
    Ok(())
}

/// KNOWN FINDING K3 (C03), second shape: the change callback of a dependency of an expert node.
fn expert_edge_callback_of_superseded_bind_run() -> Result<(), String> {
    let st = IncrState::new();
    let x = st.var(1i64);
    let log: Rc<RefCell<Vec<(i64, i64)>>> = Rc::new(RefCell::new(vec![]));
    let (xw, lg, st2) = (x.watch(), log.clone(), st.weak());
    let b = x.bind(move |&captured| {
        let lg2 = lg.clone();
        let node = ExpertNode::<i64>::new(&st2, move || captured);
        node.add_dependency_with(&xw, move |seen: &i64| {
            lg2.borrow_mut().push((captured, *seen));
        });
        node.watch()
    });
    let o = b.observe();
    st.stabilise();
    log.borrow_mut().clear();
    x.set(2);
    st.stabilise();
    check!(o.try_get_value() == Ok(2), "value {:?}", o.try_get_value());
    for (c, s) in log.borrow().iter() {
        check!(c == s, "the change callback of the expert node built by the bind run for x={c} ran with x={s} (log {:?})", log.borrow());
    }
    Ok(())
}

/// KNOWN FINDING K4 (C03): as `nested_scope_node_jumps_the_queue`, but the inner bind is dropped
/// altogether while its node R stays observed. R only knows its scope through a weak pointer to the
/// inner bind, so nothing connects it to the outer bind any more: it is never invalidated.
fn nested_scope_node_orphaned_by_dropped_inner_bind() -> Result<(), String> {
    let st = IncrState::new();
    let (l, x, y) = (st.var(100i64), st.var(1i64), st.var(7i64));
    let log: Rc<RefCell<Vec<String>>> = Rc::new(RefCell::new(vec![]));
    let (b1, leaked_b2, leaked_r) = nested_leak(&st, &l, &x, &y, &log);
    let _b1_obs = b1.observe();
    st.stabilise();
    let b2 = leaked_b2.borrow_mut().take().unwrap();
    let b2_obs = b2.observe();
    st.stabilise();
    let r = leaked_r.borrow_mut().take().unwrap();
    let r_obs = r.observe();
    st.stabilise();
    check!(r_obs.try_get_value() == Ok(108), "R {:?}", r_obs.try_get_value());
    drop(b2_obs);
    drop(b2);
    st.stabilise();
    log.borrow_mut().clear();
    l.set(200);
    st.stabilise();
    x.set(2);
    st.stabilise();
    check!(r_obs.try_get_value().is_err(), "a node created (through an inner bind that has been dropped) by the previous run of the outer bind is still valid after that bind re-ran: {:?}, log {:?}", r_obs.try_get_value(), log.borrow());
    Ok(())
}

/// KNOWN FINDING K2 (C19): `set_max_height_allowed` compares with the greatest height *ever seen*,
/// not with the greatest height in use.
fn shrink_limit_after_tall_graph_released() -> Result<(), String> {
    let st = IncrState::new_with_height(20);
    let v = st.var(1i64);
    {
        let mut n = v.map(|x| x + 1);
        for _ in 0..8 {
            n = n.map(|x| x + 1);
        }
        let o = n.observe();
        st.stabilise();
        check!(o.try_get_value() == Ok(10), "chain {:?}", o.try_get_value());
    }
    st.stabilise(); // the chain is unlinked and deallocated
    let live = st.verif_max_height_in_use();
    check!(live <= 2, "greatest height in use after the chain was released: {live}");
    st.set_max_height_allowed(5); // at least the greatest height in use
    let n = v.map(|x| x + 1).map(|x| x * 2);
    let o = n.observe();
    st.stabilise();
    check!(o.try_get_value() == Ok(4), "after shrinking {:?}", o.try_get_value());
    Ok(())
}


/// As `unsubscribe_from_drop_of_handler_capture`, but the token the guard cancels belongs to a
/// *sibling* subscription of the same observer, and the handler holding the guard is dropped by
/// `unsubscribe` / by disallowing a new observer (defect #27): both dropped the handler while the
/// observer's handler table was mutably borrowed.
fn guard_cancels_sibling_subscription_on_drop() -> Result<(), String> {
    struct Guard {
        state: incremental::WeakState,
        token: incremental::SubscriptionToken,
    }
    impl Drop for Guard {
        fn drop(&mut self) {
            self.state.unsubscribe(self.token);
        }
    }
    for how in 0..4 {
        let st = IncrState::new();
        let v = st.var(1i64);
        let o = v.observe();
        let hits = Rc::new(Cell::new(0));
        let h = hits.clone();
        let t1 = o.subscribe(move |_| h.set(h.get() + 1));
        let g = Guard { state: st.weak(), token: t1 };
        let t2 = o.subscribe(move |_| {
            let _ = &g;
        });
        let keep = v.observe();
        match how {
            // the handler holding the guard is unsubscribed before / after the first stabilise
            0 => {
                o.unsubscribe(t2).map_err(|e| format!("{e:?}"))?;
            }
            1 => {
                st.stabilise();
                check!(hits.get() == 1, "how={how}: {} deliveries", hits.get());
                st.unsubscribe(t2);
            }
            // the observer is disallowed while new / while in use
            2 => o.disallow_future_use(),
            _ => {
                st.stabilise();
                o.disallow_future_use();
            }
        }
        let before = hits.get();
        v.set(2);
        st.stabilise();
        v.set(3);
        st.stabilise();
        check!(hits.get() == before, "how={how}: the sibling subscription cancelled by the guard (or its observer) still received {} update(s)", hits.get() - before);
        check!(keep.try_get_value() == Ok(3), "how={how}: {:?}", keep.try_get_value());
        let a = st.verif_audit();
        check!(a.is_empty(), "how={how}: audit: {}", a.join(" / "));
    }
    Ok(())
}


/// The guard pattern of tests/fixed_point.rs (`WeakState::unsubscribe(token)` in a `Drop`) when the
/// guard outlives the state, or is owned by a handler that the state's own teardown drops
/// (defect #28): `WeakState::unsubscribe` unwrapped the dead state inside a destructor.
fn unsubscribe_guard_outlives_state() -> Result<(), String> {
    struct Guard {
        state: incremental::WeakState,
        token: incremental::SubscriptionToken,
    }
    impl Drop for Guard {
        fn drop(&mut self) {
            self.state.unsubscribe(self.token);
        }
    }
    for how in 0..3 {
        let st = IncrState::new();
        let v = st.var(1i64);
        let o = v.observe();
        let t1 = o.subscribe(|_| ());
        let guard = Guard { state: st.weak(), token: t1 };
        match how {
            // a free-standing guard dropped after the state and everything else
            0 => {
                st.stabilise();
                drop(st);
                drop(o);
                drop(v);
                drop(guard);
            }
            // owned by a handler; the state goes first, then the observer
            1 => {
                o.subscribe(move |_| {
                    let _ = &guard;
                });
                st.stabilise();
                drop(st);
                drop(v);
                drop(o);
            }
            // owned by a handler of an observer whose handles are gone: dropped by the state's teardown
            _ => {
                o.subscribe(move |_| {
                    let _ = &guard;
                });
                st.stabilise();
                drop(v);
                drop(o);
                drop(st);
            }
        }
    }
    Ok(())
}


/// A variable's value writes another variable when it is dropped; the variable dies, so its value
/// is dropped by the dead-variable teardown at the end of a stabilise, after the round's deferred
/// writes had been committed (defect #29, pointed out by a seeding agent): the write was parked on
/// the already drained stack and only committed at the end of the *next* stabilise, with
/// `is_stable()` true in between.
fn write_from_drop_of_dead_variable_value() -> Result<(), String> {
    #[derive(Debug, Clone)]
    struct Guard(Rc<RefCell<Option<Var<i64>>>>);
    impl PartialEq for Guard {
        fn eq(&self, _: &Self) -> bool {
            true
        }
    }
    impl Drop for Guard {
        fn drop(&mut self) {
            if let Some(c) = &*self.0.borrow() {
                c.update(|x| x + 1);
            }
        }
    }
    let st = IncrState::new();
    let counter = st.var(0i64);
    let oc = counter.observe();
    let cell = Rc::new(RefCell::new(Some(counter.clone())));
    let g = st.var(Guard(cell.clone()));
    st.stabilise();
    drop(g); // last handle: the variable is torn down at the end of the next stabilise
    st.stabilise();
    check!(counter.get() == 1, "after the stabilise that dropped the value, counter.get() = {} (the write made by its Drop is still parked)", counter.get());
    check!(!st.is_stable(), "is_stable() although a write to an observed variable is waiting to be propagated");
    let mut rounds = 0;
    while !st.is_stable() && rounds < 5 {
        st.stabilise();
        rounds += 1;
    }
    check!(oc.try_get_value() == Ok(1) && counter.get() == 1, "after stabilising until stable: observer {:?}, get {}", oc.try_get_value(), counter.get());
    cell.borrow_mut().take();
    Ok(())
}


/// The heap-order sibling of `nested_scope_node_jumps_the_queue` (defect #30, pointed out by a
/// round-6 seeding agent): outer bind O (necessary) contains inner bind I, which a switch inside O
/// makes unnecessary while I's node n stays observed; O's input then grows taller without changing.
/// The lift of O's lhs-change node passed over the unnecessary I, so n stayed *below* the node that
/// has to invalidate it and ran first, with a stale captured value.
fn nested_scope_node_not_lifted_with_outer_bind() -> Result<(), String> {
    let st = IncrState::new();
    let (x, s, y, z, v) = (st.var(1i64), st.var(true), st.var(1i64), st.var(true), st.var(10i64));
    let xw = x.watch();
    let x_tall = xw.map(|a| *a).map(|a| *a).map(|a| *a).map(|a| *a).map(|a| *a).map(|a| *a);
    let x_short = xw.clone();
    let xsel = s.bind(move |s| if *s { x_short.clone() } else { x_tall.clone() });
    let log: Rc<RefCell<Vec<(i64, i64, i64)>>> = Rc::new(RefCell::new(vec![]));
    let stash: Slot<i64> = Rc::new(RefCell::new(None));
    let (yw, zw, vw, stw, xc) = (y.watch(), z.watch(), v.watch(), st.weak(), x.clone());
    let o = {
        let (log, stash) = (log.clone(), stash.clone());
        xsel.bind(move |&xv| {
            let (log, stash, vw, xc) = (log.clone(), stash.clone(), vw.clone(), xc.clone());
            let i = yw.bind(move |&yv| {
                let (log, xc) = (log.clone(), xc.clone());
                let n = vw.map(move |vv| {
                    log.borrow_mut().push((xv, xc.get(), *vv));
                    xv * 1000 + yv * 100 + *vv
                });
                stash.borrow_mut().replace(n.clone());
                n
            });
            let c = stw.constant(-1i64);
            zw.bind(move |zv| if *zv { i.clone() } else { c.clone() })
        })
    };
    let o_obs = o.observe();
    st.stabilise();
    check!(o_obs.try_get_value() == Ok(1110), "O {:?}", o_obs.try_get_value());
    let n = stash.borrow().clone().unwrap();
    let n_obs = n.observe();
    st.stabilise();
    z.set(false); // I is no longer necessary; n is, on its own
    st.stabilise();
    check!(o_obs.try_get_value() == Ok(-1) && n_obs.try_get_value() == Ok(1110), "after the switch: O {:?}, n {:?}", o_obs.try_get_value(), n_obs.try_get_value());
    s.set(false); // O's input grows taller, same value
    st.stabilise();
    let a = st.verif_audit();
    check!(a.is_empty(), "audit after O's input grew: {}", a.join(" / "));
    log.borrow_mut().clear();
    x.set(2);
    v.set(20);
    st.stabilise();
    for (captured, actual, vv) in log.borrow().iter() {
        check!(captured == actual, "n, built by the run of the outer bind for x={captured}, ran (on v={vv}) while x={actual}: stale captured input");
    }
    check!(n_obs.try_get_value() == Err(ObserverError::ObservingInvalid), "n reads {:?}", n_obs.try_get_value());
    let a = st.verif_audit();
    check!(a.is_empty(), "audit at the end: {}", a.join(" / "));
    Ok(())
}


/// The observability callback of an expert node creates (and drops, or keeps outside any closure)
/// an observer when the expert node becomes observed through a *new observer* (defect #31, pointed
/// out by a round-6 seeding agent): `add_new_observers` kept the list of new observers mutably
/// borrowed while linking them.
fn observe_from_observability_callback() -> Result<(), String> {
    for keep in [false, true] {
        let st = IncrState::new();
        let v = st.var(1i64);
        let side = v.map(|x| x + 1);
        let w = st.var(5i64);
        let kept: Rc<RefCell<Vec<incremental::Observer<i64>>>> = Rc::new(RefCell::new(vec![]));
        let k2 = kept.clone();
        let expert = ExpertNode::<i64>::new_(&st.weak(), move || 7, move |observed| {
            if observed {
                let o = side.observe();
                if keep {
                    k2.borrow_mut().push(o);
                }
            }
        });
        expert.add_dependency(&w.watch());
        let o = expert.watch().observe();
        st.stabilise();
        check!(o.try_get_value() == Ok(7), "keep={keep}: expert node {:?}", o.try_get_value());
        st.stabilise();
        if keep {
            let got = kept.borrow()[0].try_get_value();
            check!(got == Ok(2), "keep={keep}: the observer made by the callback reads {:?}", got);
        }
        v.set(4);
        st.stabilise();
        if keep {
            let got = kept.borrow()[0].try_get_value();
            check!(got == Ok(5), "keep={keep}: after a write {:?}", got);
        }
        let a = st.verif_audit();
        check!(a.is_empty(), "keep={keep}: audit: {}", a.join(" / "));
        kept.borrow_mut().clear();
    }
    Ok(())
}


/// `nested_scope_node_jumps_the_queue` with more levels (regression input for the recursion in
/// `Scope::deep_height`, fix #26; seeded change C02-K looks at one level only): `depth` binds nested
/// in each other, the innermost builds `leaf = x.map(|x| x * k)` with the *outermost* bind's input
/// captured. The leaf and the outermost bind stay in use, the binds in between do not.
fn leaf_several_binds_down_jumps_the_queue() -> Result<(), String> {
    type S = Rc<RefCell<Option<Incr<i64>>>>;
    fn level(no: usize, k: i64, unit: Incr<i64>, x: Incr<i64>, slots: Vec<S>, k_now: Rc<Cell<i64>>, runs: Rc<RefCell<Vec<(i64, i64, i64)>>>, st: incremental::WeakState) -> Incr<i64> {
        if no == slots.len() {
            return x.map(move |&x| {
                runs.borrow_mut().push((k, k_now.get(), x));
                x * k
            });
        }
        let unit2 = unit.clone();
        unit.bind(move |_| {
            let inner = level(no + 1, k, unit2.clone(), x.clone(), slots.clone(), k_now.clone(), runs.clone(), st.clone());
            *slots[no].borrow_mut() = Some(inner);
            st.constant(0i64)
        })
    }
    for depth in 2..=4usize {
        let st = IncrState::new();
        let (k, x, unit) = (st.var(1i64), st.var(10i64), st.var(0i64));
        let k_now = Rc::new(Cell::new(1i64));
        let runs: Rc<RefCell<Vec<(i64, i64, i64)>>> = Rc::new(RefCell::new(vec![]));
        let slots: Vec<S> = (0..depth).map(|_| Rc::new(RefCell::new(None))).collect();
        let outer = {
            let (unit, x, slots, k_now, runs, stw) = (unit.watch(), x.watch(), slots.clone(), k_now.clone(), runs.clone(), st.weak());
            k.bind(move |&k| {
                let inner = level(1, k, unit.clone(), x.clone(), slots.clone(), k_now.clone(), runs.clone(), stw.clone());
                *slots[0].borrow_mut() = Some(inner);
                stw.constant(0i64)
            })
        };
        let _outer_obs = outer.observe();
        st.stabilise();
        let mut held = vec![];
        let mut nodes = vec![]; // every level's handle is kept until the end (K4)
        for slot in &slots {
            let node = slot.borrow().clone().ok_or_else(|| format!("depth {depth}: a level was not built"))?;
            held.push(node.observe());
            nodes.push(node);
            st.stabilise();
        }
        let leaf_obs = held.pop().unwrap();
        check!(leaf_obs.try_get_value() == Ok(10), "depth {depth}: leaf {:?}", leaf_obs.try_get_value());
        drop(held); // the binds in between are no longer in use
        st.stabilise();
        x.set(11);
        st.stabilise();
        check!(leaf_obs.try_get_value() == Ok(11), "depth {depth}: leaf after an ordinary change {:?}", leaf_obs.try_get_value());
        runs.borrow_mut().clear();
        x.set(12); // the leaf's input first, then the outermost bind's
        k.set(2);
        k_now.set(2);
        st.stabilise();
        for (captured, now, xv) in runs.borrow().iter() {
            check!(captured == now, "depth {depth}: the leaf function ran on x = {xv} with the stale bind input {captured} (now {now})");
        }
        check!(leaf_obs.try_get_value() == Err(ObserverError::ObservingInvalid), "depth {depth}: leaf reads {:?}", leaf_obs.try_get_value());
        let a = st.verif_audit();
        check!(a.is_empty(), "depth {depth}: audit: {}", a.join(" / "));
        drop(nodes);
    }
    Ok(())
}
