#!/bin/bash
# runs every claimed check at the given tier (default quick) and prints one status line each
tier=${1:-quick}
cd "$(dirname "$0")"
for p in $(python3 -c "import json; print(' '.join(c['property_id'] for c in json.load(open('MANIFEST.json'))['checks']))"); do
  out=$(./check $p --tier $tier 2>&1); rc=$?
  echo "$p rc=$rc $(echo "$out" | tail -1)"
  if [ $rc -ne 0 ]; then echo "$out" | grep -E "VIOLATION|INCONCLUSIVE|inconclusive" -A1 | head -8; fi
done
